"""Self-test variants for C05."""
from sa.selftests import V, Variant

T = "moptipyapps/tsp/tour_length.py"
I = "moptipyapps/tsp/instance.py"

VARIANTS = [
    V("no-closing-edge", T, "last: int = x[-1]", "last: int = x[0]",
      "fire", "D5.1"),
    V("transposed-index", T, "instance[last, cur]", "instance[cur, cur]",
      "fire", "D5.1"),
    V("last-not-updated", T, "        last = cur\n", "", "fire", "D5.1"),
    V("double-count", T, "result = result + instance[last, cur]",
      "result = result + 2 * instance[last, cur]", "fire", "D5.1"),
    V("accumulate-in-array", T,
      "    result: int = 0\n", "    result: int = 0\n    x[0] = x[0]\n",
      "fire", "D5"),
    V("evaluate-wrong-args", T, "return tour_length(self.instance, x)",
      "return tour_length(self.instance, x[::-1].copy()[:-1])", "fire",
      "D5.1"),
    V("ub-includes-diagonal-skip-wrong", I,
      "farthest_neighbor = max(farthest_neighbor, dist)",
      "farthest_neighbor = min(farthest_neighbor, dist)", "fire", "D5.4"),
    V("ub-not-accumulated", I,
      "upper_bound = upper_bound + farthest_neighbor",
      "upper_bound = max(upper_bound, farthest_neighbor)", "fire", "D5.4"),
    V("lb-small-init", I,
      "nearest_neighbor: int = 9_223_372_036_854_775_807",
      "nearest_neighbor: int = 1000", "fire", "D5.4"),
    V("lb-uses-max", I,
      "nearest_neighbor = min(nearest_neighbor, dist)",
      "nearest_neighbor = max(nearest_neighbor, dist)", "fire", "D5.4"),
    V("sym-flag-wrong-compare", I,
      "if dist != matrix[j, i]:", "if dist > matrix[j, i]:", "fire", "D5.4"),
    V("sym-flag-reset", I,
      "                if dist != matrix[j, i]:\n"
      "                    is_symmetric = False\n",
      "                if dist != matrix[j, i]:\n"
      "                    is_symmetric = False\n"
      "                else:\n                    is_symmetric = True\n",
      "fire", "D5.4"),
    V("copy-check-partial", I,
      "        for i in range(n_cities):\n            for j in range(n_cities)"
      ":\n                if obj[i, j] != matrix[i, j]:",
      "        for i in range(n_cities):\n            for j in range(i):\n"
      "                if obj[i, j] != matrix[i, j]:", "fire", "D5.3"),
    V("copy-check-removed", I,
      "                if obj[i, j] != matrix[i, j]:\n"
      "                    raise ValueError(",
      "                if obj[i, j] > 2 * matrix[i, j]:\n"
      "                    raise ValueError(", "fire", "D5.3"),
    V("cap-removed", I,
      "tour_length_lower_bound, 1_000_000_000_000_001)",
      "tour_length_lower_bound, 10 ** 30)", "fire", "D5.2"),
    V("objective-ub-returns-lb", T,
      "return self.instance.tour_length_upper_bound",
      "return self.instance.tour_length_lower_bound", "fire", "D5.4"),
    # silent
    V("silent-index-loop", T,
      "    last: int = x[-1]\n    for cur in x:\n"
      "        result = result + instance[last, cur]\n        last = cur\n",
      "    for i in range(len(x)):\n"
      "        result += instance[x[i - 1], x[i]]\n", "silent"),
    V("silent-swap-statements", I,
      "                farthest_neighbor = max(farthest_neighbor, dist)\n"
      "                nearest_neighbor = min(nearest_neighbor, dist)\n",
      "                nearest_neighbor = min(dist, nearest_neighbor)\n"
      "                farthest_neighbor = max(dist, farthest_neighbor)\n",
      "silent"),
    V("silent-if-max", I,
      "                farthest_neighbor = max(farthest_neighbor, dist)\n",
      "                if dist > farthest_neighbor:\n"
      "                    farthest_neighbor = dist\n", "silent"),
    V("silent-aug-assign", I,
      "upper_bound = upper_bound + farthest_neighbor",
      "upper_bound += farthest_neighbor", "silent"),
]

VARIANTS += [
    Variant("instance-shares-callers-matrix", I, [
        ("        obj: Final[Instance] = super().__new__(\n"
         "            cls, use_shape, int_range_to_dtype(\n"
         "                min_value=-limit, max_value=limit))\n"
         "        np.copyto(obj, matrix, \"unsafe\")\n",
         "        obj: Final[Instance] = np.asarray(matrix, "
         "int_range_to_dtype(\n"
         "            min_value=-limit, max_value=limit)).view(cls)\n")],
        "fire", "D5.3"),
    Variant("silent-instance-from-np-array", I, [
        ("        obj: Final[Instance] = super().__new__(\n"
         "            cls, use_shape, int_range_to_dtype(\n"
         "                min_value=-limit, max_value=limit))\n"
         "        np.copyto(obj, matrix, \"unsafe\")\n",
         "        obj: Final[Instance] = np.array(matrix, "
         "int_range_to_dtype(\n"
         "            min_value=-limit, max_value=limit)).view(cls)\n")],
        "silent"),
    Variant("instance-from-astype-unverified", I, [
        ("        obj: Final[Instance] = super().__new__(\n"
         "            cls, use_shape, int_range_to_dtype(\n"
         "                min_value=-limit, max_value=limit))\n"
         "        np.copyto(obj, matrix, \"unsafe\")\n",
         "        obj: Final[Instance] = matrix.astype(int_range_to_dtype(\n"
         "            min_value=-limit, max_value=limit)).view(cls)\n"),
        ("                if obj[i, j] != matrix[i, j]:",
         "                if obj[i, j] != obj[i, j]:")],
        "fire", "D5.3"),
]

VARIANTS += [
    V("multiplier-scales-only-n-cities", "moptipyapps/tsp/instance.py",
      "        limit: Final[int] = (check_int_range(\n"
      "            upper_bound_range_multiplier, "
      "\"upper_bound_range_multiplier\", 1)\n"
      "            * max(upper_bound, n_cities))",
      "        limit: Final[int] = max(upper_bound, check_int_range(\n"
      "            upper_bound_range_multiplier, "
      "\"upper_bound_range_multiplier\", 1)\n"
      "            * n_cities)", "fire", "D5.3",
      "seed C05-multiplier-scales-only-n-cities"),
]

VARIANTS += [
    V("closing-edge-transposed", "moptipyapps/tsp/tour_length.py",
      "    result: int = 0\n    last: int = x[-1]\n    for cur in x:\n"
      "        result = result + instance[last, cur]\n"
      "        last = cur\n    return result",
      "    first: int = x[0]\n    result: int = 0\n    last: int = first\n"
      "    for cur in x[1:]:\n"
      "        result = result + instance[last, cur]\n"
      "        last = cur\n    return result + instance[first, last]",
      "fire", "D5.1", "seed C05-closing-edge-transposed"),
]
