"""Self-test variants for C18."""
from sa.selftests import V

I = "moptipyapps/tsp/instance.py"
K = "moptipyapps/tsp/known_optima.py"

VARIANTS = [
    V("nint-truncates", I, "        return int(0.5 + v)",
      "        return int(v)", "fire", "D18.1"),
    V("euc-missing-square", I,
      "return __nint(sqrt(((a[0] - b[0]) ** 2) + ((a[1] - b[1]) ** 2)))",
      "return __nint(sqrt(((a[0] - b[0]) ** 2) + (a[1] - b[1])))", "fire",
      "D18.1"),
    V("att-divisor", I, "sqrt((xd * xd + yd * yd) / 10.0)",
      "sqrt((xd * xd + yd * yd) / 100.0)", "fire", "D18.1"),
    V("att-compare-flipped", I, "return (tij + 1) if tij < rij else tij",
      "return (tij + 1) if tij > rij else tij", "fire", "D18.1"),
    V("geo-pi", I, "return (3.141592 * (degrees", "return (3.14159265 * "
      "(degrees", "fire", "D18.1"),
    V("geo-radius", I, "return int(6378.388 * acos(", "return int(6371.0 * "
      "acos(", "fire", "D18.1"),
    V("geo-q-swapped", I, "(1.0 + q1) * q2 - (1.0 - q1) * q3",
      "(1.0 + q1) * q3 - (1.0 - q1) * q2", "fire", "D18.1"),
    V("ceil-rounds-down", I,
      "return disti if dist == disti else (disti + 1)",
      "return disti", "fire", "D18.1"),
    V("type-table-swapped", I,
      "        coord_dim = 2\n        dist_fun = __dist_att",
      "        coord_dim = 2\n        dist_fun = __dist_2deuc", "fire",
      "D18.1"),
    V("upper-row-wrap", I,
      "                if i >= n_cities:\n                    j = j + 1\n"
      "                    i = j + 1\n            return res",
      "                if i >= n_cities:\n                    j = j + 1\n"
      "                    i = j\n            return res", "fire", "D18.2"),
    V("upper-row-count", I,
      "ints = __read_n_ints((n_cities * (n_cities - 1)) // 2, stream)",
      "ints = __read_n_ints((n_cities * (n_cities + 1)) // 2, stream)",
      "fire", "D18.2"),
    V("lower-diag-start", I,
      "            i = 0\n            j = 0\n            for v in ints:\n"
      "                if i != j:\n                    res[j, i] = res[i, j]"
      " = v\n                i = i + 1\n                if i > j:",
      "            i = 0\n            j = 1\n            for v in ints:\n"
      "                if i != j:\n                    res[j, i] = res[i, j]"
      " = v\n                i = i + 1\n                if i > j:", "fire",
      "D18.2"),
    V("lower-diag-test", I, "                if i > j:\n",
      "                if i >= j:\n", "fire", "D18.2"),
    V("walker-asymmetric-store", I,
      "            for v in ints:\n                res[j, i] = res[i, j] = v",
      "            for v in ints:\n                res[j, i] = v", "fire",
      "D18.2"),
    V("writer-rows-include-diagonal", I,
      "collector(\" \".join(map(str, list(self[i][i + 1:]))))",
      "collector(\" \".join(map(str, list(self[i][i:]))))", "fire",
      "D18.3"),
    V("writer-format-inverted", I,
      "t = _EWF_UPPER_ROW if self.is_symmetric else _EWF_FULL_MATRIX",
      "t = _EWF_FULL_MATRIX if self.is_symmetric else _EWF_UPPER_ROW",
      "fire", "D18.3"),
    V("tour-parser-one-based", K, "nodes.append(node - 1)",
      "nodes.append(node)", "fire", "D18.4"),
    V("tour-parser-no-dup-check", K,
      "                if node in done_nodes:\n"
      "                    raise ValueError(f\"encountered node {node} "
      "twice\")\n", "", "fire", "D18.4"),
    # silent
    V("silent-euc-reordered", I,
      "return __nint(sqrt(((a[0] - b[0]) ** 2) + ((a[1] - b[1]) ** 2)))",
      "dx = b[0] - a[0]\n    dy = a[1] - b[1]\n"
      "    return __nint(sqrt(dy * dy + dx * dx))", "silent"),
    V("silent-geo-cos-sign", I, "q1: Final[float] = cos(long1 - long2)",
      "q1: Final[float] = cos(long2 - long1)", "silent"),
    V("silent-walker-step-rewritten", I,
      "                i = i + 1\n                if i >= n_cities:\n"
      "                    j = j + 1\n                    i = j + 1\n"
      "            return res",
      "                i += 1\n                if not (i < n_cities):\n"
      "                    j += 1\n                    i = 1 + j\n"
      "            return res", "silent"),
]

VARIANTS += [
    V("geo-math-radians", I,
      "    return (3.141592 * (degrees + (5.0 * (x - degrees)) / 3.0)) "
      "/ 180.0",
      "    import math\n    return math.radians(degrees + (5.0 * (x - "
      "degrees)) / 3.0)", "fire", "D18.1",
      "seed C18-geo-exact-pi: TSPLIB95 fixes PI = 3.141592; the exact pi "
      "moves a few truncations"),
    V("silent-geo-pi-hoisted", I,
      "    return (3.141592 * (degrees + (5.0 * (x - degrees)) / 3.0)) "
      "/ 180.0",
      "    pi_tsplib = 3.141592\n    return ((degrees + (5.0 * (x - degrees"
      ")) / 3.0) * pi_tsplib) / 180.0", "silent", "",
      "behaviour-preserving rewrite of the conversion"),
]

VARIANTS += [
    V("points-matrix-not-symmetric", I, "            matrix[j, i] = dist\n",
      "", "fire", "D18.5"),
    V("points-row-index-not-checked", I,
      "                or (row[0] != index):", "                or (row[0] "
      "== index):", "fire", "D18.5"),
    V("points-index-kept-as-coordinate", I,
      "        coordinates.append(row[1:])", "        coordinates.append("
      "row[0:])", "fire", "D18.5"),
    V("points-dispatch-arguments-swapped", I,
      "        return __matrix_from_points(n_cities, coord_dim, stream, "
      "dist_fun)",
      "        return __matrix_from_points(coord_dim, n_cities, stream, "
      "dist_fun)", "fire", "D18.5"),
    V("type-branch-taken-for-any-type", I,
      "    if (edge_weight_type == __EWT_EUC_2D) \\\n            and (",
      "    if (edge_weight_type == __EWT_EUC_2D) \\\n            or (",
      "fire", "D18.1"),
    V("ints-dropped-by-appender", I, "            fwd(i)\n",
      "            pass\n", "fire", "D18.6"),
    V("reader-stops-too-early-polarity", I, "        if len(res) == n:\n"
      "            break", "        if len(res) != n:\n            break",
      "fire", "D18.6"),
    V("tokeniser-does-not-advance", I, "        idx = next_space\n", "",
      "fire", "D18.6"),
    V("header-dimension-stored-as-type", I,
      "                the_n_cities = check_to_int_range(value, "
      "\"dimension\",", "                the_ewt = check_to_int_range(value,"
      " \"dimension\",", "fire", "D18.7"),
    V("header-reader-gets-format-for-type", I,
      "            the_matrix = _matrix_from_edge_weights(\n"
      "                the_n_cities, the_ewt, the_ewf, stream)",
      "            the_matrix = _matrix_from_edge_weights(\n"
      "                the_n_cities, the_ewf, the_ewt, stream)", "fire",
      "D18.7"),
    V("header-value-loses-first-character", I,
      "            value: str = line[sep_idx + 1:].strip()",
      "            value: str = line[sep_idx + 2:].strip()", "fire",
      "D18.7"),
    V("header-stops-after-name", I,
      "                the_name = value\n                continue",
      "                the_name = value\n                break", "fire",
      "D18.7"),
    V("header-first-name-rejected", I,
      "                if the_name is not None:",
      "                if the_name is None:", "fire", "D18.7"),
]

VARIANTS += [
    V("tour-duplicates-not-remembered", K,
      "                done_nodes.add(node)\n", "", "fire", "D18.4"),
    V("tour-section-marker-inverted", K,
      "        if line == \"TOUR_SECTION\":",
      "        if line != \"TOUR_SECTION\":", "fire", "D18.4"),
    V("tour-ids-stored-one-based", K,
      "                nodes.append(node - 1)", "                nodes.append"
      "(node)", "fire", "D18.4"),
    V("explicit-format-dispatch-inverted", I,
      "        if edge_weight_format == _EWF_UPPER_ROW:",
      "        if edge_weight_format != _EWF_UPPER_ROW:", "fire", "D18.2"),
    V("writer-omits-dimension", I,
      "        collector(f\"{_KEY_DIMENSION}: {self.n_cities}\")\n", "",
      "fire", "D18.3"),
    V("writer-omits-eof", I, "        collector(_EOF)\n", "", "fire",
      "D18.3"),
]
