"""Self-test variants for C12."""
from sa.selftests import V

VARIANTS = [
    V("decoder-unseeded-rng", "moptipyapps/binpacking2d/instgen/"
      "inst_decoding.py",
      "default_rng(int.from_bytes(x.tobytes())).shuffle(items)",
      "default_rng().shuffle(items)", "fire", "D12.1"),
    V("global-numpy-random", "moptipyapps/binpacking2d/instgen/"
      "inst_decoding.py",
      "default_rng(int.from_bytes(x.tobytes())).shuffle(items)",
      "np.random.shuffle(items)", "fire", "D12.1"),
    V("time-seed", "moptipyapps/tsp/ea1p1_revn.py",
      "        random.shuffle(x)  # randomly generate an initial solution",
      "        import time\n        random.shuffle(x)\n"
      "        x[0], x[int(time.time()) % n] = x[int(time.time()) % n], "
      "x[0]", "fire", "D12.1"),
    V("experiment-time-budget", "moptipyapps/binpacking2d/experiment.py",
      "Execution().set_max_fes(MAX_FES).set_log_improvements(True)",
      "Execution().set_max_time_millis(60000).set_log_improvements(True)",
      "fire", "D12.2"),
    V("example-no-budget", "examples/qap_example_experiment_rls_rs.py",
      "Execution().set_max_fes(32768).set_log_improvements(",
      "Execution().set_log_improvements(", "fire", "D12.2"),
    V("hardness-seed-outside-loop", "moptipyapps/binpacking2d/instgen/"
      "hardness.py",
      "            for seed in seeds:\n                execs.set_rand_seed("
      "seed)\n",
      "            for seed in seeds:\n                if runs == 0:\n"
      "                    execs.set_rand_seed(seed)\n", "fire", "D12.2"),
    V("hardness-memo-wrong-key", "moptipyapps/binpacking2d/instgen/"
      "hardness.py",
      "                f\"seed for {instance.name}\", self.n_runs))",
      "                f\"seed for {instance.n_items}\", self.n_runs))",
      "fire", "D12.3"),
    V("parser-key-mismatch", "moptipyapps/binpacking2d/packing.py",
      "key_1: Final[str] = \"y.inst.name: \"",
      "key_1: Final[str] = \"x.inst.name: \"", "fire", "D12.4"),
    V("space-logs-other-scope", "moptipyapps/binpacking2d/packing_space.py",
      "        with logger.scope(SCOPE_INSTANCE) as kv:",
      "        with logger.scope(\"instance\") as kv:", "fire", "D12.4"),
    V("surrogate-experiment-ms", "moptipyapps/dynamic_control/"
      "experiment_surrogate.py", "fes_for_training=",
      "ms_for_training=1000, fes_for_training=", "fire", "D12.2"),
    # silent
    V("silent-seed-literal", "moptipyapps/binpacking2d/instgen/"
      "inst_decoding.py",
      "default_rng(int.from_bytes(x.tobytes())).shuffle(items)",
      "default_rng(seed=int.from_bytes(x.tobytes())).shuffle(items)",
      "silent"),
    V("silent-fes-changed", "moptipyapps/binpacking2d/experiment.py",
      "Execution().set_max_fes(MAX_FES).set_log_improvements(True)",
      "Execution().set_log_improvements(True).set_max_fes(2 * MAX_FES)",
      "silent"),
]

PRF = "moptipyapps/binpacking2d/packing_result.py"
VARIANTS += [
    V("record-bounds-swapped", PRF,
      "            obounds[csv_scope(str(objf), _OBJECTIVE_LOWER)] = \\\n"
      "                objf.lower_bound()",
      "            obounds[csv_scope(str(objf), _OBJECTIVE_LOWER)] = \\\n"
      "                objf.upper_bound()", "fire", "D12.6"),
    V("record-value-under-class-name", PRF,
      "        objfn: str = str(objf)", "        objfn: str = str(type(objf))",
      "fire", "D12.6"),
    V("record-width-height-swapped", PRF,
      "        bin_width=instance.bin_width, bin_height=instance.bin_height,",
      "        bin_width=instance.bin_height, bin_height=instance.bin_width,",
      "fire", "D12.6"),
    V("record-bin-bounds-from-objective-bounds", PRF,
      "        objective_bounds=row[2],\n        bin_bounds=row[0])",
      "        objective_bounds=row[2],\n        bin_bounds=row[2])", "fire",
      "D12.6"),
]

VARIANTS += [
    V("outer-run-gets-inner-budget", "moptipyapps/binpacking2d/instgen/"
      "experiment.py", "            .set_max_fes(MAX_FES)\n",
      "            .set_max_fes(INNER_MAX_FES)\n", "fire", "D12.2"),
    V("silent-outer-budget-keyword", "moptipyapps/binpacking2d/instgen/"
      "experiment.py", "            .set_max_fes(MAX_FES)\n",
      "            .set_max_fes(max_fes=MAX_FES)\n", "silent"),
]

VARIANTS += [
    V("silent-record-positional", PRF,
      "        end_result=end_result,\n"
      "        n_items=instance.n_items,\n"
      "        n_different_items=instance.n_different_items,\n"
      "        bin_width=instance.bin_width, bin_height=instance.bin_height,"
      "\n        objectives=objective_values,\n",
      "        end_result, instance.n_items, instance.n_different_items,\n"
      "        instance.bin_width, instance.bin_height, objective_values,\n",
      "silent"),
    V("record-positional-dimensions-swapped", PRF,
      "        end_result=end_result,\n"
      "        n_items=instance.n_items,\n"
      "        n_different_items=instance.n_different_items,\n"
      "        bin_width=instance.bin_width, bin_height=instance.bin_height,"
      "\n        objectives=objective_values,\n",
      "        end_result, instance.n_items, instance.n_different_items,\n"
      "        instance.bin_height, instance.bin_width, objective_values,\n",
      "fire", "D12.6"),
]

VARIANTS += [
    V("model-runs-get-training-budget",
      "moptipyapps/dynamic_control/experiment_surrogate.py",
      "            fes_per_model_run=fes_per_model_run,",
      "            fes_per_model_run=fes_for_training,", "fire", "D12.2"),
]

PKG = "moptipyapps/binpacking2d/packing.py"
VARIANTS += [
    V("log-parser-drops-given-instance", PKG,
      "        self.__instance: Instance | None = instance",
      "        self.__instance: Instance | None = None", "fire", "D12.7",
      "seed C12-log-parser-drops-given-instance"),
    V("from-log-ignores-instance", PKG,
      "] = _PackingParser(instance)",
      "] = _PackingParser()", "fire", "D12.7"),
    V("silent-parser-instance-local", PKG,
      "        self.__instance: Instance | None = instance",
      "        given = instance\n"
      "        self.__instance: Instance | None = given", "silent", "",
      "alias"),
]

VARIANTS += [
    V("base-setup-ignores-encoding", "moptipyapps/binpacking2d/experiment.py",
      "            .set_encoding(encoding(instance))",
      "            .set_encoding(ImprovedBottomLeftEncoding1(instance))",
      "fire", "D12.8", "seed C12-base-setup-ignores-encoding"),
]

VARIANTS += [
    V("completion-hook-describes-empty-record",
      "moptipyapps/dynamic_control/experiment_raw.py",
      "    process.get_copy_of_best_x(result)\n", "", "fire", "D12.9",
      "seed C12-completion-hook-describes-empty-record"),
]
