"""Self-test variants for C14."""
from sa.selftests import V

E1 = "moptipyapps/binpacking2d/encodings/ibl_encoding_1.py"
E2 = "moptipyapps/binpacking2d/encodings/ibl_encoding_2.py"

VARIANTS = [
    V("down-collision-ge", E1,
      "        if (packing[i0, IDX_RIGHT_X] > packing_i1_left_x) and \\\n"
      "                (packing[i0, IDX_LEFT_X] < packing_i1_right_x) and",
      "        if (packing[i0, IDX_RIGHT_X] >= packing_i1_left_x) and \\\n"
      "                (packing[i0, IDX_LEFT_X] < packing_i1_right_x) and",
      "fire", "D14.3"),
    V("down-ignores-vertical-test", E1,
      " and \\\n                (packing[i0, IDX_BOTTOM_Y] < packing_i1_top_y)"
      ":", ":", "fire", "D14.3"),
    V("left-support-rule-dropped", E1,
      "            if packing[i0, IDX_TOP_Y] == packing_i1_bottom_y:",
      "            if packing[i0, IDX_TOP_Y] <= packing_i1_bottom_y:",
      "fire", "D14.3"),
    V("left-distance-wrong-edge", E1,
      "                packing_i1_left_x - packing[i0, IDX_RIGHT_X]))",
      "                packing_i1_left_x - packing[i0, IDX_LEFT_X]))",
      "fire", "D14.3"),
    V("down-moves-one-edge", E1,
      "        packing[i1, IDX_TOP_Y] = packing_i1_top_y - min_down\n", "",
      "fire", "D14.3"),
    V("left-before-down", E1,
      "while __move_down(y, bin_start, i) or __move_left(y, bin_start, i):",
      "while __move_left(y, bin_start, i) or __move_down(y, bin_start, i):",
      "fire", "D14.2"),
    V("only-one-round", E1,
      "        while __move_down(y, bin_start, i) or __move_left(y, "
      "bin_start, i):\n            pass  # loop until object can no longer "
      "be moved",
      "        if __move_down(y, bin_start, i) or __move_left(y, "
      "bin_start, i):\n            pass  # loop until object can no longer "
      "be moved", "fire", "D14"),
    V("drop-position-left", E1,
      "y[i, IDX_LEFT_X] = bin_width - w  # the left end",
      "y[i, IDX_LEFT_X] = bin_width - h  # the left end", "fire", "D14.4"),
    V("enc1-revisits-bins", E1,
      "            bin_start = i  # set the starting index of the bin\n",
      "", "fire", "D14.4"),
    V("enc2-other-bins-block", E2,
      "        if (packing[i0, IDX_BIN] == bin_id) and \\\n",
      "        if (packing[i0, IDX_BIN] >= bin_id) and \\\n", "fire",
      "D14.3"),
    V("enc2-descending-bins", E2,
      "for item_bin in range(1, bin_id + 1):  # iterate over all bins in "
      "use", "for item_bin in range(bin_id, 0, -1):  # iterate", "fire",
      "D14.4"),
    V("enc2-no-break", E2,
      "                bin_ends[item_bin - 1] = i + 1  # index after last "
      "item in bin\n                break",
      "                bin_ends[item_bin - 1] = i + 1  # index after last "
      "item in bin\n                continue", "fire", "D14"),
    V("enc2-stale-table-read", E2,
      "    bin_starts[0] = 0\n", "", "fire", "D14.1"),
    V("enc1-reads-later-rows", E1,
      "    min_left: int = packing_i1_left_x\n    for i0 in range("
      "bin_start, i1):",
      "    min_left: int = packing_i1_left_x\n    for i0 in range("
      "bin_start, i1 + 1):", "fire", "D14"),
    V("encoder-keeps-state", E1,
      "        y.n_bins = _decode(x, y, self.__instance,",
      "        self.last = x\n        y.n_bins = _decode(x, y, "
      "self.__instance,", "fire", "D14.1"),
    V("id-not-written-first", E2,
      "        y[i, IDX_ID] = use_id + 1  # the id of the object\n",
      "        if i > 0:\n            y[i, IDX_ID] = use_id + 1\n",
      "fire", "D14.1"),
    # silent
    V("silent-while-true-form", E1,
      "        while __move_down(y, bin_start, i) or __move_left(y, "
      "bin_start, i):\n            pass  # loop until object can no longer "
      "be moved",
      "        while True:\n            if __move_down(y, bin_start, i):\n"
      "                continue\n            if not __move_left(y, "
      "bin_start, i):\n                break", "silent"),
    V("silent-collision-flipped", E1,
      "        if (packing[i0, IDX_RIGHT_X] > packing_i1_left_x) and \\\n"
      "                (packing[i0, IDX_LEFT_X] < packing_i1_right_x) and",
      "        if (packing_i1_left_x < packing[i0, IDX_RIGHT_X]) and \\\n"
      "                not (packing[i0, IDX_LEFT_X] >= packing_i1_right_x) "
      "and", "silent"),
    V("silent-min-as-if", E1,
      "            min_down = min(min_down, int(\n"
      "                packing_i1_bottom_y - packing[i0, IDX_TOP_Y]))",
      "            d = int(packing_i1_bottom_y - packing[i0, IDX_TOP_Y])\n"
      "            if d < min_down:\n                min_down = d",
      "silent"),
]

VARIANTS += [
    V("window-skips-first-box", E1,
      "    bin_start: int = 0  # the index of the first object",
      "    bin_start: int = 1  # the index of the first object", "fire",
      "D14.4", "found by the mutation survey: box 0 would never block"),
    V("move-called-with-swapped-window", E1,
      "        while __move_down(y, bin_start, i) or __move_left(y, "
      "bin_start, i):",
      "        while __move_down(y, i, bin_start) or __move_left(y, "
      "bin_start, i):", "fire", "D14.4"),
]

VARIANTS += [
    V("enc2-window-not-extended", E2,
      "                bin_ends[item_bin - 1] = i + 1  # index after last "
      "item in bin\n", "", "fire", "D14.4",
      "found by the mutation survey: later items of the bin would not see "
      "the box just placed"),
    V("enc2-new-bin-window-empty", E2,
      "            bin_ends[bin_id] = i + 1  # set the end index",
      "            bin_ends[bin_id] = i  # set the end index", "fire",
      "D14.4"),
    V("enc2-first-window-skips-box-zero", E2, "    bin_starts[0] = 0\n",
      "    bin_starts[0] = 1\n", "fire", "D14.4"),
    V("enc2-move-window-swapped", E2,
      "            while __move_down(y, item_bin, int(bin_start), "
      "int(bin_end), i) \\",
      "            while __move_down(y, item_bin, int(bin_end), "
      "int(bin_start), i) \\", "fire", "D14.4"),
    V("silent-enc2-initial-window-end", E2, "    bin_ends[0] = 0\n",
      "    bin_ends[0] = -1\n", "silent", "", "an empty window either way"),
]
