"""Self-test variants for C08."""
from sa.selftests import V

P = "moptipyapps/ttp/plan_length.py"
I = "moptipyapps/ttp/instance.py"

VARIANTS = [
    V("away-venue-off-by-one", P,
      "                next_location = (-next_location) - 1",
      "                next_location = -next_location", "fire", "D8.1"),
    V("home-game-stays-away", P,
      "            elif next_location > 0:  # home game at home\n"
      "                next_location = team",
      "            elif next_location > 0:  # home game at home\n"
      "                next_location = current_location", "fire", "D8.1"),
    V("bye-free", P,
      "                length += bye_penalty\n                continue",
      "                continue", "fire", "D8.1"),
    V("location-not-updated", P,
      "            length += distances[current_location, next_location]\n"
      "            current_location = next_location",
      "            length += distances[current_location, next_location]",
      "fire", "D8.1"),
    V("distance-from-home", P,
      "            length += distances[current_location, next_location]",
      "            length += distances[team, next_location]", "fire",
      "D8.1"),
    V("no-return-leg", P,
      "        if current_location != team:  # go back home\n"
      "            length += distances[current_location, team]\n", "",
      "fire", "D8.1"),
    V("start-at-city-zero", P,
      "        current_location: int = team  # start at home",
      "        current_location: int = 0  # start at home", "fire", "D8.1"),
    V("penalty-too-small", P,
      "self.bye_penalty: Final[int] = (2 * int(instance.max())) + 1",
      "self.bye_penalty: Final[int] = (2 * int(instance.max()))", "fire",
      "D8.2"),
    V("silent-upper-bound-looser", P,
      "        days: Final[int] = (n - 1) * rounds\n"
      "        return n * days * self.bye_penalty",
      "        days: Final[int] = n * rounds\n"
      "        return n * days * self.bye_penalty", "silent", "",
      "a larger bound is still a valid bound (was demanded to be equal "
      "before D8.3)"),
    V("upper-bound-one-day-short", P,
      "        days: Final[int] = (n - 1) * rounds\n"
      "        return n * days * self.bye_penalty",
      "        days: Final[int] = (n - 2) * rounds\n"
      "        return n * days * self.bye_penalty", "fire", "D8.2"),
    V("upper-bound-without-penalty", P,
      "        return n * days * self.bye_penalty",
      "        return n * days * int(self.instance.max())", "fire", "D8.2"),
    V("evaluate-wrong-penalty", P,
      "return game_plan_length(x, x.instance, self.bye_penalty)",
      "return game_plan_length(x, x.instance, 1)", "fire", "D8.2"),
    V("instance-bound-other-penalty", I,
      "        return 0, ((2 * int(self.max())) + 1) * n * days",
      "        return 0, (2 * int(self.max())) * n * days", "fire", "D8.2"),
    # silent
    V("silent-no-shortcut", P,
      "            if current_location == next_location:\n"
      "                continue  # no move\n", "", "silent"),
    V("silent-return-leg-unconditional", P,
      "        if current_location != team:  # go back home\n"
      "            length += distances[current_location, team]",
      "        length += distances[current_location, team]", "silent"),
    V("silent-sign-tests-reordered", P,
      "            if next_location < 0:  # away game at other team\n"
      "                next_location = (-next_location) - 1\n"
      "            elif next_location > 0:  # home game at home\n"
      "                next_location = team",
      "            if next_location > 0:  # home game at home\n"
      "                next_location = team\n"
      "            elif 0 > next_location:  # away game at other team\n"
      "                next_location = -(next_location + 1)", "silent"),
]

VARIANTS += [
    V("loader-transposes-distances", "moptipyapps/ttp/instance.py",
      "        dm[tup[0], tup[1]] = dst", "        dm[tup[1], tup[0]] = dst",
      "fire", "D8.4", "seed C08-loader-transposes-distances"),
    V("silent-loader-unpacks-key", "moptipyapps/ttp/instance.py",
      "    for tup, dst in distances.items():\n"
      "        dm[tup[0], tup[1]] = dst",
      "    for (src, dest), dst in distances.items():\n"
      "        dm[src, dest] = dst", "silent", "", "unpacked key"),
]
