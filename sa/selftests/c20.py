"""Self-test variants for C20."""
from sa.selftests import V

I = "moptipyapps/order1d/instance.py"

VARIANTS = [
    V("dist-not-symmetric", I,
      "                dist_matrix[i, j] = dist_matrix[j, i] = j - i",
      "                dist_matrix[i, j] = j - i", "fire", "D20.1"),
    V("dist-squared", I,
      "                dist_matrix[i, j] = dist_matrix[j, i] = j - i",
      "                dist_matrix[i, j] = dist_matrix[j, i] = (j - i) ** 2",
      "fire", "D20.1"),
    V("dist-loop-short", I, "            for j in range(i + 1, n):",
      "            for j in range(i + 2, n):", "fire", "D20.1"),
    V("horizon-ignored", I,
      "                if f > horizon:\n                    continue\n",
      "", "fire", "D20.2"),
    V("horizon-off-by-one", I, "                if f > horizon:",
      "                if f >= horizon:", "fire", "D20.2"),
    V("flow-depends-on-position", I,
      "multiplier * ((max_val - f + 1) ** flow_power)",
      "multiplier * ((max_val - f + 1 + i) ** flow_power)", "fire",
      "D20.3"),
    V("flow-increasing", I,
      "multiplier * ((max_val - f + 1) ** flow_power)",
      "multiplier * ((f + 1) ** flow_power)", "fire", "D20.4"),
    V("flow-negative-power", I,
      "multiplier * ((max_val - f + 1) ** flow_power)",
      "multiplier * ((max_val - f + 1) ** -flow_power)", "fire", "D20.4"),
    # silent
    V("silent-dist-rewrite", I,
      "                dist_matrix[i, j] = dist_matrix[j, i] = j - i",
      "                dist_matrix[j, i] = dist_matrix[i, j] = -i + j",
      "silent"),
    V("silent-diag-test-flipped", I,
      "                if i == j:\n                    continue\n"
      "                f = flows[i, j]\n                if f > horizon:",
      "                if j == i:\n                    continue\n"
      "                f = flows[i, j]\n                if horizon < f:",
      "silent"),
]

D = "moptipyapps/order1d/distances.py"
VARIANTS += [
    V("flow-base-minus-one", I,
      "                    multiplier * ((max_val - f + 1) ** flow_power)))",
      "                    multiplier * ((max_val - f - 1) ** flow_power)))",
      "fire", "D20.4", "the farthest neighbour inside the horizon would get "
      "(-1)**p, the next nearer one 0"),
    V("ranks-not-zero-based", I, "method=\"average\") - 1.0",
      "method=\"average\") + 1.0", "fire", "D20.3"),
    V("ranks-by-column", I, "distances, axis=1, method=\"average\")",
      "distances, axis=0, method=\"average\")", "fire", "D20.3"),
    V("swap-distance-counts-cycles-only", D, "    return n - result",
      "    return result", "fire", "D20.5"),
    V("swap-distance-orbit-not-marked", D,
      "                unchecked[j] = False\n", "", "fire", "D20.5"),
    V("swap-distance-walk-condition", D, "            while j != i:",
      "            while j == i:", "fire", "D20.5"),
    V("silent-swap-distance-start-not-marked", D,
      "            unchecked[i] = False\n", "", "silent", "",
      "the start of a cycle is never looked at again"),
    V("merge-keeps-the-duplicate", I, "                    del datal[j]\n",
      "", "fire", "D20.6"),
    V("merge-maps-to-wrong-index", I,
      "                    mappings.append((o2, i))",
      "                    mappings.append((o2, j))", "fire", "D20.6"),
    V("merge-skips-next-object", I,
      "                        del ds[j]\n                    continue",
      "                        del ds[j]\n                    j += 1\n"
      "                    continue", "fire", "D20.6"),
    V("merge-only-negative-distances", I,
      "                if dist <= 0:  # distance == 0, must purge",
      "                if dist < 0:  # distance == 0, must purge", "fire",
      "D20.6"),
    V("row-without-diagonal", I, "            current_dists.append(0)\n", "",
      "fire", "D20.6"),
    V("representative-not-recorded", I,
      "            mappings.append((o1, i))\n", "", "fire", "D20.6"),
    V("horizon-and-power-swapped", I,
      "                        flow_power, horizon, tag_titles,",
      "                        horizon, flow_power, tag_titles,", "fire",
      "D20.6"),
    V("valid-distances-rejected", I,
      "                if not (isfinite(dist) and (0 <= dist <= 1e100)):",
      "                if (isfinite(dist) and (0 <= dist <= 1e100)):", "fire",
      "D20.6"),
]

VARIANTS += [
    V("distances-truncated-before-ranking", "moptipyapps/order1d/instance.py",
      "        return Instance(np.array(distances),",
      "        return Instance(np.array(distances, DEFAULT_INT),", "fire",
      "D20.6"),
    V("silent-distances-as-float-matrix", "moptipyapps/order1d/instance.py",
      "        return Instance(np.array(distances),",
      "        return Instance(np.asarray(distances, dtype=float),",
      "silent"),
]

SP = "moptipyapps/order1d/space.py"
VARIANTS += [
    V("to-str-reports-inverse-position", SP,
      "        for tag, i in tags:\n            row.clear()\n"
      "            row.append(str(x[i]))\n"
      "            row.append(float_to_str(x[i] / n))",
      "        pos = np.argsort(x)\n        for tag, i in tags:\n"
      "            row.clear()\n            row.append(str(pos[i]))\n"
      "            row.append(float_to_str(pos[i] / n))", "fire", "D20.7",
      "seed C20-to-str-reports-inverse-position"),
    V("silent-to-str-position-hoisted", SP,
      "            row.append(str(x[i]))\n"
      "            row.append(float_to_str(x[i] / n))",
      "            where = x[i]\n            row.append(str(where))\n"
      "            row.append(float_to_str(where / n))", "silent", "",
      "hoisted cell"),
    V("silent-to-str-list-alias", SP,
      "        for tag, i in tags:\n            row.clear()\n"
      "            row.append(str(x[i]))",
      "        xs = x.tolist()\n        for tag, i in tags:\n"
      "            row.clear()\n            row.append(str(xs[i]))",
      "silent", "", "same values through a list copy"),
]
