"""Self-test variants for C20."""
from sa.selftests import V

I = "moptipyapps/order1d/instance.py"

VARIANTS = [
    V("dist-not-symmetric", I,
      "                dist_matrix[i, j] = dist_matrix[j, i] = j - i",
      "                dist_matrix[i, j] = j - i", "fire", "D20.1"),
    V("dist-squared", I,
      "                dist_matrix[i, j] = dist_matrix[j, i] = j - i",
      "                dist_matrix[i, j] = dist_matrix[j, i] = (j - i) ** 2",
      "fire", "D20.1"),
    V("dist-loop-short", I, "            for j in range(i + 1, n):",
      "            for j in range(i + 2, n):", "fire", "D20.1"),
    V("horizon-ignored", I,
      "                if f > horizon:\n                    continue\n",
      "", "fire", "D20.2"),
    V("horizon-off-by-one", I, "                if f > horizon:",
      "                if f >= horizon:", "fire", "D20.2"),
    V("flow-depends-on-position", I,
      "multiplier * ((max_val - f + 1) ** flow_power)",
      "multiplier * ((max_val - f + 1 + i) ** flow_power)", "fire",
      "D20.3"),
    V("flow-increasing", I,
      "multiplier * ((max_val - f + 1) ** flow_power)",
      "multiplier * ((f + 1) ** flow_power)", "fire", "D20.4"),
    V("flow-negative-power", I,
      "multiplier * ((max_val - f + 1) ** flow_power)",
      "multiplier * ((max_val - f + 1) ** -flow_power)", "fire", "D20.4"),
    # silent
    V("silent-dist-rewrite", I,
      "                dist_matrix[i, j] = dist_matrix[j, i] = j - i",
      "                dist_matrix[j, i] = dist_matrix[i, j] = -i + j",
      "silent"),
    V("silent-diag-test-flipped", I,
      "                if i == j:\n                    continue\n"
      "                f = flows[i, j]\n                if f > horizon:",
      "                if j == i:\n                    continue\n"
      "                f = flows[i, j]\n                if horizon < f:",
      "silent"),
]
