"""Self-test variants for C06."""
from sa.selftests import V

E = "moptipyapps/tsp/ea1p1_revn.py"
F = "moptipyapps/tsp/fea1p1_revn.py"

VARIANTS = [
    V("ea-dy-sign", E, "- dist[xim1, xi] - dist[xj, xjp1])",
      "- dist[xim1, xi] + dist[xj, xjp1])", "fire", "D6.1"),
    V("ea-dy-wrong-edge", E, "dy: Final[int] = (dist[xim1, xj] + dist[xi, "
      "xjp1]", "dy: Final[int] = (dist[xim1, xjp1] + dist[xi, xj]",
      "fire", "D6.1"),
    V("ea-no-wrap", E, "xjp1: Final[int] = x[(j + 1) % n_cities]",
      "xjp1: Final[int] = x[j + 1]", "fire", "D6.1"),
    V("ea-missing-i0-case", E,
      "        if i == 0:  # deal with the special case that i==0\n"
      "            x[0:j + 1:1] = x[j::-1]\n"
      "        else:  # the normal case that i > 0\n"
      "            x[i:j + 1:1] = x[j:i - 1:-1]\n",
      "        x[i:j + 1:1] = x[j:i - 1:-1]\n", "fire", "D6.2"),
    V("ea-reversal-off-by-one", E, "x[i:j + 1:1] = x[j:i - 1:-1]",
      "x[i:j:1] = x[j - 1:i - 1:-1]", "fire", "D6.2"),
    V("ea-accept-strict-wrong", E, "    if dy <= 0:",
      "    if dy <= 1:", "fire", "D6.4"),
    V("ea-accept-worse", E, "    if dy <= 0:", "    if dy >= 0:", "fire",
      "D6.4"),
    V("ea-returns-stale", E, "        return int(y + dy)  # return new",
      "        return int(y)  # return new", "fire", "D6.1"),
    V("ea-write-outside", E,
      "    return y  # return old tour length",
      "    x[i:j + 1:1] = x[i:j + 1:1]\n    return y  # return old tour",
      "fire", "D6.3"),
    V("ea-index-range", E, "            j = ri(nm1)  # get the second index",
      "            j = ri(n)  # get the second index", "fire", "D6.5"),
    V("ea-no-swap", E, "            if i > j:  # ensure that i <= j\n"
      "                i, j = j, i  # swap indices if i > j\n", "",
      "fire", "D6.5"),
    V("ea-full-reversal-not-skipped", E,
      "if (i == j) or ((i == 0) and (j == nm2)):", "if i == j:", "fire",
      "D6.5"),
    V("ea-register-stale-y", E,
      "            y = rev_if_not_worse(i, j, n, instance, x, y)  # apply"
      " the move\n            register(x, y)",
      "            y2 = rev_if_not_worse(i, j, n, instance, x, y)  # apply"
      " the move\n            register(x, y)\n            y = y2",
      "fire", "D6.5"),
    V("fea-h-too-small", F, "instance.tour_length_upper_bound + 1, "
      "DEFAULT_INT)", "instance.tour_length_upper_bound, DEFAULT_INT)",
      "fire", "D6.5"),
    V("fea-guard-wrong", F, "if h[y2] <= h[y]:", "if h[y2] < h[y]:",
      "fire", "D6.4"),
    V("fea-single-increment", F,
      "    h[y2] += 1  # update frequency of the tour length of the new "
      "solution\n", "", "fire", "D6.4"),
    V("fea-i0-case-swapped", F,
      "        if i == 0:  # deal with the special case that i==0",
      "        if i != 0:  # deal with the special case that i==0",
      "fire", "D6.2"),
    V("fea-wrong-n", F, "y = rev_if_h_not_worse(i, j, n, instance, h, x, y)",
      "y = rev_if_h_not_worse(i, j, nm1, instance, h, x, y)", "fire",
      "D6.5"),
    # silent
    V("silent-slice-defaults", E, "x[0:j + 1:1] = x[j::-1]",
      "x[:j + 1] = x[j::-1]", "silent"),
    V("silent-double-slice", E,
      "        if i == 0:  # deal with the special case that i==0\n"
      "            x[0:j + 1:1] = x[j::-1]\n"
      "        else:  # the normal case that i > 0\n"
      "            x[i:j + 1:1] = x[j:i - 1:-1]\n",
      "        x[i:j + 1] = x[i:j + 1][::-1]\n", "silent"),
    V("silent-dy-reordered", E,
      "dy: Final[int] = (dist[xim1, xj] + dist[xi, xjp1]\n"
      "                      - dist[xim1, xi] - dist[xj, xjp1])",
      "dy: Final[int] = (dist[xjp1, xi] - dist[xi, xim1]\n"
      "                      + dist[xj, xim1] - dist[xj, xjp1])", "silent"),
    V("silent-guard-flipped", E, "    if dy <= 0:", "    if 0 >= dy:",
      "silent"),
    V("silent-swap-via-minmax-order", E,
      "            if i > j:  # ensure that i <= j\n"
      "                i, j = j, i  # swap indices if i > j\n",
      "            if j < i:  # ensure that i <= j\n"
      "                i, j = j, i  # swap indices if i > j\n", "silent"),
]

VARIANTS += [
    V("ea-first-position-reversal-dropped", "moptipyapps/tsp/ea1p1_revn.py",
      "            x[0:j + 1:1] = x[j::-1]", "            pass", "fire",
      "D6.3", "found by the mutation survey: i == 0 moves were accounted "
      "for but not applied"),
    V("fea-general-reversal-dropped", "moptipyapps/tsp/fea1p1_revn.py",
      "            x[i:j + 1:1] = x[j:i - 1:-1]", "            pass", "fire",
      "D6.3"),
]

VARIANTS += [
    V("silent-early-return-on-worsening", E,
      "    if dy <= 0:  # this is not a worsening improving move? ... so "
      "apply it\n"
      "        # reverse the sequence from i to j in the solution\n"
      "        if i == 0:  # deal with the special case that i==0\n"
      "            x[0:j + 1:1] = x[j::-1]\n"
      "        else:  # the normal case that i > 0\n"
      "            x[i:j + 1:1] = x[j:i - 1:-1]\n"
      "        return int(y + dy)  # return new tour length\n"
      "    return y  # return old tour length\n",
      "    if dy > 0:\n        return y\n"
      "    if i == 0:\n        x[0:j + 1:1] = x[j::-1]\n"
      "    else:\n        x[i:j + 1:1] = x[j:i - 1:-1]\n"
      "    return int(y + dy)\n", "silent"),
    V("silent-flattened-elif", E,
      "    if dy <= 0:  # this is not a worsening improving move? ... so "
      "apply it\n"
      "        # reverse the sequence from i to j in the solution\n"
      "        if i == 0:  # deal with the special case that i==0\n"
      "            x[0:j + 1:1] = x[j::-1]\n"
      "        else:  # the normal case that i > 0\n"
      "            x[i:j + 1:1] = x[j:i - 1:-1]\n"
      "        return int(y + dy)  # return new tour length\n"
      "    return y  # return old tour length\n",
      "    if dy > 0:\n        return y\n"
      "    elif i == 0:\n        x[0:j + 1:1] = x[j::-1]\n"
      "    else:\n        x[i:j + 1:1] = x[j:i - 1:-1]\n"
      "    return int(y + dy)\n", "silent"),
    V("first-position-move-always-applied", E,
      "    if dy <= 0:  # this is not a worsening improving move? ... so "
      "apply it\n"
      "        # reverse the sequence from i to j in the solution\n"
      "        if i == 0:  # deal with the special case that i==0\n"
      "            x[0:j + 1:1] = x[j::-1]\n"
      "        else:  # the normal case that i > 0\n"
      "            x[i:j + 1:1] = x[j:i - 1:-1]\n"
      "        return int(y + dy)  # return new tour length\n"
      "    return y  # return old tour length\n",
      "    if i == 0:\n        x[0:j + 1:1] = x[j::-1]\n"
      "    elif dy <= 0:\n        x[i:j + 1:1] = x[j:i - 1:-1]\n"
      "    else:\n        return y\n"
      "    return int(y + dy)\n", "fire", "D6.4"),
]

F = "moptipyapps/tsp/fea1p1_revn.py"
VARIANTS += [
    V("nop-move-replaced-by-neighbour-pair", F,
      "            if (i == j) or ((i == 0) and (j == nm2)):\n"
      "                continue  # either a nop or a complete reversal\n",
      "            if i == j:\n                i -= 1\n"
      "            if (i == 0) and (j == nm2):\n                continue\n",
      "fire", "D6.5"),
    V("undecided-nop-move-replaced-guarded", F,
      "            if (i == j) or ((i == 0) and (j == nm2)):\n"
      "                continue  # either a nop or a complete reversal\n",
      "            if i == j:\n                if i == 0:\n"
      "                    continue\n                i -= 1\n"
      "            if (i == 0) and (j == nm2):\n                continue\n",
      "undecided", "", "index arithmetic: no counterexample for n <= 8, "
      "but not a proof"),
]

VARIANTS += [
    V("h-table-logged-with-offset", "moptipyapps/tsp/fea1p1_revn.py",
      "            log_h(process, h, 0)",
      "            log_h(process, h, -instance.tour_length_lower_bound)",
      "fire", "D6.6", "seed C06-h-table-logged-with-offset"),
]

VARIANTS += [
    V("ea-delta-in-32-bit-local", "moptipyapps/tsp/ea1p1_revn.py",
      "            boundscheck=False)\ndef rev_if_not_worse",
      "            boundscheck=False, locals={\"dy\": numba.int32})\n"
      "def rev_if_not_worse", "fire", "D6.7",
      "seed C06-ea-delta-in-32-bit-local"),
]
