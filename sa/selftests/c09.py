"""Self-test variants for C09."""
from sa.selftests import V

O = "moptipyapps/qap/objective.py"
I = "moptipyapps/qap/instance.py"

VARIANTS = [
    V("one-sided-transpose", O, "flows[i, j] * distances[xi, xj]",
      "flows[j, i] * distances[xi, xj]", "fire", "D9.1"),
    V("unpermuted-distance", O, "flows[i, j] * distances[xi, xj]",
      "flows[i, j] * distances[i, xj]", "fire", "D9.1"),
    V("inner-loop-short", O, "for j, xj in enumerate(x):",
      "for j, xj in enumerate(x[1:]):", "undecided", "D9.1"),
    V("swapped-wrapper-args", O,
      "return _evaluate(x, self.instance.distances, self.instance.flows)",
      "return _evaluate(x, self.instance.flows, self.instance.distances)",
      "fire", "D9.1"),
    V("swapped-kernel-params", O,
      "def _evaluate(x: np.ndarray, distances: np.ndarray, "
      "flows: np.ndarray) -> int:",
      "def _evaluate(x: np.ndarray, flows: np.ndarray, "
      "distances: np.ndarray) -> int:", "fire", "D9.1"),
    V("float-division", O, "result += flows[i, j] * distances[xi, xj]",
      "result += flows[i, j] * distances[xi, xj] / 1", "fire", "D9"),
    V("lb-reversed-view", I, "    df_lb[:] = df_ub[::-1]\n",
      "    df_lb = df_ub[::-1]\n", "fire", "D9.3"),
    V("lb-not-reversed", I, "df_lb[:] = df_ub[::-1]", "df_lb[:] = df_ub",
      "fire", "D9.3"),
    V("ff-unsorted", I, "    ff[:] = flows.flatten()\n    ff.sort()\n",
      "    ff[:] = flows.flatten()\n", "fire", "D9.3"),
    V("clobber-shared-operand", I,
      "return (int(np.multiply(df_lb, ff, df_lb).sum()),",
      "return (int(np.multiply(df_lb, ff, ff).sum()),", "fire", "D9.3"),
    V("bounds-swapped", I,
      "    return (int(np.multiply(df_lb, ff, df_lb).sum()),\n"
      "            int(np.multiply(df_ub, ff, df_ub).sum()))",
      "    return (int(np.multiply(df_ub, ff, df_ub).sum()),\n"
      "            int(np.multiply(df_lb, ff, df_lb).sum()))",
      "fire", "D9.3"),
    V("init-lowers-lb", I, "lb = max(lb, check_int_range(",
      "lb = min(lb, check_int_range(", "fire", "D9.3"),
    V("parser-swapped-lists", I,
      "return Instance(np.array(dists, DEFAULT_UNSIGNED_INT).reshape((n, n)),"
      "\n                        np.array(flows, DEFAULT_UNSIGNED_INT)"
      ".reshape((n, n)),",
      "return Instance(np.array(flows, DEFAULT_UNSIGNED_INT).reshape((n, n)),"
      "\n                        np.array(dists, DEFAULT_UNSIGNED_INT)"
      ".reshape((n, n)),", "fire", "D9.4"),
    V("parser-dists-first", I,
      "                if state == 1:\n                    flows.extend(row)"
      "\n                    if len(flows) >= n2:",
      "                if state == 1:\n                    dists.extend(row)"
      "\n                    if len(dists) >= n2:", "fire", "D9.4"),
    # silent
    V("silent-swap-loops", O,
      "    for i, xi in enumerate(x):\n        for j, xj in enumerate(x):\n"
      "            result += flows[i, j] * distances[xi, xj]",
      "    for j, xj in enumerate(x):\n        for i in range(len(x)):\n"
      "            result = result + distances[x[i], xj] * flows[i, j]",
      "silent"),
    V("silent-fresh-product", I,
      "return (int(np.multiply(df_lb, ff, df_lb).sum()),",
      "return (int((ff * df_lb).sum()),", "silent"),
    V("silent-np-sort", I,
      "    df_ub[:] = distances.flatten()\n    df_ub.sort()\n",
      "    df_ub[:] = np.sort(distances.flatten())\n", "silent"),
]

VARIANTS += [
    V("bounds-buffers-one-row-only", I, "    n *= n\n", "", "fire", "D9.3",
      "found by the mutation survey: buffers of n instead of n*n cells"),
]

VARIANTS += [
    V("storage-type-from-lower-bound", I,
      "int_range_to_dtype(min_value=0, max_value=ub)",
      "int_range_to_dtype(min_value=0, max_value=lb)", "fire", "D9.3",
      "seed C09-storage-type-from-lower-bound: entries above the lower "
      "bound's type wrap around"),
    V("silent-storage-type-positional", I,
      "int_range_to_dtype(min_value=0, max_value=ub)",
      "int_range_to_dtype(0, ub)", "silent"),
]

I2 = "moptipyapps/qap/instance.py"
VARIANTS += [
    V("loader-limit-below-constructor", I2,
      "    return check_to_int_range(val, \"value\", 0, "
      "1_000_000_000_000_000)",
      "    return check_to_int_range(val, \"value\", 0, "
      "1_000_000_000_000)", "fire", "D9.4",
      "seed C09-loader-limit-below-constructor"),
    V("silent-loader-limit-in-local", I2,
      "    return check_to_int_range(val, \"value\", 0, "
      "1_000_000_000_000_000)",
      "    top: Final[int] = 1_000_000_000_000_000\n"
      "    return check_to_int_range(val, \"value\", 0, top)", "silent"),
]

VARIANTS += [
    V("flows-stored-from-distances", "moptipyapps/qap/instance.py",
      "flows.astype(dtype) if flows.dtype != dtype else flows",
      "flows.astype(dtype) if flows.dtype != dtype else distances", "fire",
      "D9.3"),
    V("distances-stored-from-flows", "moptipyapps/qap/instance.py",
      "distances.astype(dtype) if distances.dtype != dtype else distances",
      "flows.astype(dtype)", "fire", "D9.3"),
    V("silent-matrices-always-converted", "moptipyapps/qap/instance.py",
      "flows.astype(dtype) if flows.dtype != dtype else flows",
      "np.array(flows, dtype=dtype)", "silent"),
]

VARIANTS += [
    V("flows-if-form-default-from-distances", "moptipyapps/qap/instance.py",
      "        self.flows: Final[np.ndarray] = \\\n"
      "            flows.astype(dtype) if flows.dtype != dtype else flows\n",
      "        use: np.ndarray = distances\n"
      "        if flows.dtype != dtype:\n"
      "            use = flows.astype(dtype)\n"
      "        self.flows: Final[np.ndarray] = use\n", "fire", "D9.3"),
    V("silent-flows-if-form", "moptipyapps/qap/instance.py",
      "        self.flows: Final[np.ndarray] = \\\n"
      "            flows.astype(dtype) if flows.dtype != dtype else flows\n",
      "        use: np.ndarray = flows\n"
      "        if flows.dtype != dtype:\n"
      "            use = flows.astype(dtype)\n"
      "        self.flows: Final[np.ndarray] = use\n", "silent"),
]

VARIANTS += [
    V("declared-bound-above-documented-value", "moptipyapps/qap/instance.py",
      "\"tai12a\": 224416", "\"tai12a\": 224461", "fire", "D9.5"),
    V("declared-bound-above-best-known", "moptipyapps/qap/instance.py",
      "\"tai100b\": 1151591000", "\"tai100b\": 1515910000", "fire", "D9.5"),
    V("silent-declared-bound-lowered", "moptipyapps/qap/instance.py",
      "\"tai12a\": 224416", "\"tai12a\": 224000", "silent"),
]
