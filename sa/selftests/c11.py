"""Self-test variants for C11."""
from sa.selftests import V

O = "moptipyapps/dynamic_control/objective.py"
S = "moptipyapps/dynamic_control/surrogate_optimizer.py"

VARIANTS = [
    V("evaluate-caches-last", O,
      "        z = self.sum_up_results(results)\n",
      "        z = self.sum_up_results(results)\n        self.last_z = z\n",
      "fire", "D11.1"),
    V("collector-not-guarded", O,
      "            if collector is not None:\n"
      "                collector(diff_from_ode(the_ode, state_dim))",
      "            self._FigureOfMerit__append("
      "diff_from_ode(the_ode, state_dim))", "fire", "D11.1"),
    V("collector-ignores-flag", O,
      "            self.__append if self.__collect else None",
      "            self.__append if self.__collection_sc is not None "
      "else None",
      "fire", "D11.1"),
    V("set-model-keeps-collecting", O,
      "        self.__equations = equations\n        self.__collect = False",
      "        self.__equations = equations", "fire", "D11.2"),
    V("set-raw-forgets-collect", O,
      "        self.__equations = self.instance.system.equations\n"
      "        self.__collect = self.__collection_sc is not None",
      "        self.__equations = self.instance.system.equations",
      "fire", "D11.2"),
    V("set-model-collect-true", O,
      "        self.__equations = equations\n        self.__collect = False",
      "        self.__equations = equations\n"
      "        self.__collect = self.__collection_sc is not None",
      "fire", "D11.2"),
    V("result-written-late", O,
      "            results[i] = z = j_from_ode(",
      "            z = j_from_ode(", "fire", "D11.3"),
    V("loop-skips-case", O,
      "            if collector is not None:\n"
      "                collector(diff_from_ode(the_ode, state_dim))",
      "            if collector is None:\n                continue\n"
      "            collector(diff_from_ode(the_ode, state_dim))", "silent",
      "", "the collector call is the last statement of the round: `continue`"
      " skips nothing (behaviour-preserving)"),
    V("return-unchecked", O,
      "        return z if 0.0 <= z <= 1e100 else 1e200",
      "        return z", "fire", "D11.4"),
    V("return-range-loosened", O,
      "        return z if 0.0 <= z <= 1e100 else 1e200",
      "        return z if z <= 1e100 else 1e200", "fire", "D11.4"),
    V("surrogate-forgets-set-raw", S,
      "            raw.set_raw()  # switch to the actual problem and data "
      "collection", "            pass", "fire", "D11.5"),
    V("surrogate-restore-conditional", S,
      "            setattr(raw, \"initialize\", orig_init)  # allow "
      "resetting to \"raw\"",
      "            if tempsys is not None:\n"
      "                setattr(raw, \"initialize\", orig_init)", "fire",
      "D11.5"),
    V("surrogate-evaluate-in-model-mode", S,
      "            raw.set_raw()  # switch to the actual problem and data "
      "collection",
      "            process.evaluate(result)\n            raw.set_raw()",
      "fire", "D11.5"),
    # silent
    V("silent-return-early-form", O,
      "        return z if 0.0 <= z <= 1e100 else 1e200",
      "        return 1e200 if not (0.0 <= z <= 1e100) else z", "silent"),
    V("silent-pairing-order", O,
      "        self.__equations = equations\n        self.__collect = False",
      "        self.__collect = False\n        self.__equations = equations",
      "silent"),
]

VARIANTS += [
    V("initialize-clears-df-twice", O,
      "        if self.__collection_sc is not None:\n"
      "            self.__collection_sc.clear()\n",
      "        if self.__collection_sc is not None:\n"
      "            self.__collection_df.clear()\n", "fire", "D11.6",
      "seed C11-initialize-clears-df-twice"),
    V("initialize-no-set-raw", O,
      "            self.__collection_sc.clear()\n        self.set_raw()\n",
      "            self.__collection_sc.clear()\n", "fire", "D11.6"),
    V("initialize-clears-only-when-collecting", O,
      "        if self.__collection_df is not None:\n"
      "            self.__collection_df.clear()\n",
      "        if self.__collect:\n"
      "            self.__collection_df.clear()\n", "fire", "D11.6",
      "in model mode the flag is off and the list would survive"),
    V("silent-initialize-cross-guards", O,
      "        if self.__collection_df is not None:\n"
      "            self.__collection_df.clear()\n"
      "        if self.__collection_sc is not None:\n"
      "            self.__collection_sc.clear()\n",
      "        if self.__collection_sc is not None:\n"
      "            self.__collection_df.clear()\n"
      "            self.__collection_sc.clear()\n", "silent", "",
      "both lists are None under the same constructor condition"),
]

VARIANTS += [
    V("per-case-guard-inverted", O,
      "            if not (0.0 <= z <= 1e100):\n                return 1e200",
      "            if (0.0 <= z <= 1e100):\n                return 1e200",
      "fire", "D11.7"),
    V("simulation-steps-and-time-swapped", O,
      "start, equations, controller, x, controller_dim, steps, time)",
      "start, equations, controller, x, controller_dim, time, steps)",
      "fire", "D11.7"),
    V("score-uses-control-dim-as-state-dim", O,
      "                the_ode, state_dim, state_dims_in_j, gamma)",
      "                the_ode, controller_dim, state_dims_in_j, gamma)",
      "fire", "D11.7"),
    V("case-not-recorded", O,
      "                collector(diff_from_ode(the_ode, state_dim))",
      "                pass", "fire", "D11.7"),
    V("le-aggregate-without-expm1", O,
      "        return float(expm1(np.log1p(results, results).mean()))",
      "        return float(np.log1p(results, results).mean())", "fire",
      "D11.7"),
    V("compaction-keeps-old-chunks", O, "        clsc.clear()\n", "", "fire",
      "D11.8", "the concatenation would be appended to its own parts: the "
      "data doubles without any evaluation"),
    V("compaction-cross-appends", O, "        cldf.append(df)",
      "        cldf.append(sc)", "fire", "D11.8"),
    V("collector-pair-swapped", O,
      "        self.__collection_sc.append(data[0])\n"
      "        self.__collection_df.append(data[1])",
      "        self.__collection_sc.append(data[1])\n"
      "        self.__collection_df.append(data[0])", "fire", "D11.6"),
    V("collections-when-unsupported", O,
      "            = [] if supports_model_mode else None\n        #: the "
      "collection of differential",
      "            = None if supports_model_mode else []\n        #: the "
      "collection of differential", "fire", "D11.6"),
    V("silent-aggregate-np-mean", O, "        return float(results.mean())",
      "        return float(np.mean(results))", "silent", ""),
]

SO = "moptipyapps/dynamic_control/surrogate_optimizer.py"
VARIANTS += [
    V("scratch-system-is-the-real-one", SO,
      "            tempsys = copy(self.system_model.system)",
      "            tempsys = self.system_model.system", "fire", "D11.9",
      "seed C11-scratch-system-aliases-real-system"),
    V("silent-scratch-system-deepcopy", SO,
      "            tempsys = copy(self.system_model.system)",
      "            real_system = self.system_model.system\n"
      "            tempsys = copy(real_system)", "silent", "",
      "copy through a local"),
]

VARIANTS += [
    V("failed-case-breaks", O,
      "            if not (0.0 <= z <= 1e100):\n                return 1e200",
      "            if not (0.0 <= z <= 1e100):\n                break",
      "fire", "D11.4", "seed C11-failed-case-breaks-instead-of-returning"),
]
