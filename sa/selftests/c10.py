"""Self-test variants for C10."""
from sa.selftests import V

O = "moptipyapps/dynamic_control/ode.py"

VARIANTS = [
    V("retry-unbounded", O, "        if (cycle > 4) or (max_time <= 1e-10):",
      "        if max_time <= 1e-10:", "fire", "D10.1"),
    V("retry-ten-cycles", O, "        if (cycle > 4) or (max_time <= 1e-10):",
      "        if (cycle > 9) or (max_time <= 1e-10):", "fire", "D10.1"),
    V("counter-reset", O, "        if is_finished and func_state.is_ok:\n",
      "        if max_time > 40.0:\n            cycle = 0\n"
      "        if is_finished and func_state.is_ok:\n", "fire", "D10.1"),
    V("is-ok-inclusive", O, "        if not -1e10 < xx < 1e10:",
      "        if not -1e10 <= xx <= 1e10:", "fire", "D10.2"),
    V("is-ok-negated-form", O, "        if not -1e10 < xx < 1e10:",
      "        if (xx <= -1e10) or (xx >= 1e10):", "fire", "D10.2"),
    V("rows-unchecked", O,
      "                    if not _is_ok(point):  # is there an error in "
      "the vector?",
      "                    if t < 0.0:  # is there an error?", "fire",
      "D10.2"),
    V("failed-row-keeps-flag", O,
      "                        is_finished = False  # we need to quit and "
      "try again\n", "", "fire",
      "D10.2"),
    V("controller-stale-time", O,
      "                    controller(point[0:n], t, parameters, "
      "point[n:-1])",
      "                    controller(point[0:n], last_time, parameters, "
      "point[n:-1])", "fire", "D10.3"),
    V("failure-row-time", O, "    result[0, -1] = 0.0",
      "    result[0, -1] = max_time", "fire", "D10.4"),
    V("dest-too-small", O,
      "        ode.shape[1] - 1 - state_dim + use_state_dims) - "
      "use_state_dims)",
      "        ode.shape[1] - 1 - state_dim + use_state_dims) - "
      "use_state_dims - 1)", "fire", "D10.5"),
    V("compute-extra-state-block", O, "    add_state: bool = False",
      "    add_state: bool = True", "fire", "D10.5"),
    V("compute-one-more-control", O, "        while inner >= state_dim:",
      "        while inner >= state_dim - 1:", "fire", "D10.5"),
    # silent
    V("silent-failure-row-order", O,
      "    result[0, n:-1] = 1e100\n    result[0, -1] = 0.0",
      "    result[0, -1] = 0.0\n    result[0, n:-1] = 1e100", "silent"),
    V("silent-exit-test-ge", O,
      "        if (cycle > 4) or (max_time <= 1e-10):",
      "        if (cycle >= 5) or (max_time <= 1e-10):", "silent"),
]

VARIANTS += [
    V("row-check-controls-only", O,
      "                    if not _is_ok(point):  # is there an error in the "
      "vector?",
      "                    if not _is_ok(point[n:-1]):  # control ok?",
      "fire", "D10.2", "seed C10-row-check-controls-only: a slowly growing "
      "state leaves (-1e10, 1e10) unnoticed"),
    V("first-row-check-state-only", O,
      "            if not _is_ok(point):\n",
      "            if not _is_ok(point[0:n]):\n", "fire", "D10.2"),
]

VARIANTS += [
    V("first-row-check-inverted", O, "            if not _is_ok(point):\n",
      "            if _is_ok(point):\n", "fire", "D10.2"),
    V("first-row-not-start-state", O,
      "            point[0:n] = starting_state\n", "", "fire", "D10.2"),
    V("rows-built-when-finished-or-ok", O,
      "        if is_finished and func_state.is_ok:",
      "        if is_finished or func_state.is_ok:", "fire", "D10.2"),
    V("row-loop-skips-row-one", O, "            for point in result[1:]:",
      "            for point in result[2:]:", "fire", "D10.2"),
    V("first-row-alias-wrong-row", O,
      "            point: np.ndarray = result[0]",
      "            point: np.ndarray = result[1]", "fire", "D10.2"),
    V("controller-not-called-for-later-rows", O,
      "                    controller(point[0:n], t, parameters, "
      "point[n:-1])\n", "", "fire", "D10.3"),
    V("interpolator-search-inverted", O,
      "                while not (dense.t_min <= t <= dense.t_max):",
      "                while (dense.t_min <= t <= dense.t_max):", "fire",
      "D10.7"),
    V("interpolator-index-stuck", O,
      "                    j += 1  # step counter\n", "", "fire", "D10.7"),
    V("interpolator-bound-off-by-one", O,
      "                    if j >= n_dense:", "                    if j > "
      "n_dense:", "fire", "D10.7"),
    V("interpolator-range-strict", O,
      "while not (dense.t_min <= t <= dense.t_max):",
      "while not (dense.t_min <= t < dense.t_max):", "fire", "D10.7"),
    V("interpolator-search-starts-at-one", O,
      "            j: int = 0  # the index of the dense interpolator",
      "            j: int = 1  # the index of the dense interpolator", "fire",
      "D10.7"),
    V("exhausted-search-keeps-looping", O,
      "                        is_finished = False  # and try the whole "
      "thing again\n                        break",
      "                        is_finished = False  # and try the whole "
      "thing again\n                        continue", "fire", "D10.7"),
    V("cycle-keeps-old-interpolators", O,
      "        denses.clear()  # always discard", "        pass  # always "
      "discard", "fire", "D10.8"),
    V("out-of-bounds-step-not-left", O,
      "            if not func_state.is_ok:\n                break",
      "            if func_state.is_ok:\n                break", "fire",
      "D10.8"),
    V("finished-means-not-finished", O,
      "            is_finished = integration.status == \"finished\"",
      "            is_finished = integration.status != \"finished\"", "fire",
      "D10.8"),
    V("interpolator-not-collected", O,
      "                denses.append(integration.dense_output())\n",
      "                pass\n", "fire", "D10.8"),
    V("running-step-leaves-loop", O,
      "                continue  # more integration to do, so we go on",
      "                pass  # more integration to do", "fire", "D10.8"),
    V("finished-solver-stepped-again", O,
      "                if is_finished:\n                    break  # we are "
      "finished",
      "                if is_finished:\n                    pass  # we are "
      "finished", "fire", "D10.8"),
    V("tracker-arguments-swapped", O,
      "        equations, controller, parameters, controller_dim)",
      "        controller, equations, parameters, controller_dim)", "fire",
      "D10.8"),
    V("j-weight-is-time-sum", O,
      "        weight: float = next_row[-1] - last_row[-1]",
      "        weight: float = next_row[-1] + last_row[-1]", "fire",
      "D10.6"),
    V("j-uses-next-row-values", O, "            v = last_row[inner]\n"
      "            inner -= 1", "            v = next_row[inner]\n"
      "            inner -= 1", "fire", "D10.6"),
    V("j-gamma-on-states", O,
      "                dest[index] = (v * v) * weight if -1e100 < v < 1e100 "
      "else 1e100",
      "                dest[index] = (v * v) * weight_01 if -1e100 < v < "
      "1e100 else 1e100", "fire", "D10.6"),
    V("j-first-states-counted", O, "    add_state: bool = False",
      "    add_state: bool = True", "fire", "D10.6"),
    V("j-not-divided-by-time", O, "    return fsum(dest) / ode[-1, -1]",
      "    return fsum(dest)", "fire", "D10.6"),
    V("j-kernel-arguments-swapped", O,
      "    __j_from_ode_compute(ode, state_dim, use_state_dims, gamma, "
      "dest)",
      "    __j_from_ode_compute(ode, use_state_dims, state_dim, gamma, "
      "dest)", "fire", "D10.6"),
    V("silent-retry-shrink-factor", O,
      "            max_time = np.nextafter(0.7 * min(func_state.max_ok_t,",
      "            max_time = np.nextafter(0.6 * min(func_state.max_ok_t,",
      "silent", "", "a numeric heuristic of the retry, not part of the "
      "contract"),
    V("silent-fewer-cycles", O, "        if (cycle > 4) or (max_time <= "
      "1e-10):", "        if (cycle > 3) or (max_time <= 1e-10):", "silent",
      ""),
    V("silent-j-square-written-differently", O,
      "            dest[index] = (v * v) * weight_01 if -1e100 < v < 1e100 "
      "else 1e100",
      "            dest[index] = weight_01 * v ** 2 if -1e100 < v < 1e100 "
      "else 1e100", "silent", ""),
]

VARIANTS += [
    V("kernel-loop-upper-bound", O, "        while inner >= state_dim:",
      "        while inner <= state_dim:", "fire", "D10.5",
      "a falling counter bounded from above: runs forever or never"),
    V("kernel-counter-stuck", O,
      "            v = last_row[inner]\n            inner -= 1\n",
      "            v = last_row[inner]\n", "fire", "D10.5",
      "nothing in the loop test changes: no termination"),
    V("retry-loop-never-runs", O,
      "    while True:  # loop until we have a sane integration",
      "    while False:  # loop until we have a sane integration", "fire",
      "D10.8"),
    V("running-flag-inverted", O,
      "            is_running: bool = integration.status == \"running\"",
      "            is_running: bool = integration.status != \"running\"",
      "fire", "D10.8", "a failed solver is stepped again (scipy raises), a "
      "running one is dropped"),
    V("silent-status-in-local", O,
      "            is_finished = integration.status == \"finished\"\n"
      "            is_running: bool = integration.status == \"running\"\n",
      "            status = integration.status\n"
      "            is_finished = status == \"finished\"\n"
      "            is_running: bool = status == \"running\"\n", "silent"),
    V("stale-status-local", O,
      "            integration.step()  # do the integration step\n",
      "            status = integration.status\n"
      "            integration.step()  # do the integration step\n"
      "            is_finished = status == \"finished\"\n", "silent", "",
      "the later assignment from integration.status still decides"),
    V("stale-status-used", O,
      "            integration.step()  # do the integration step\n"
      "            if not func_state.is_ok:\n"
      "                break  # some out-of-bounds thing happened! quit!\n"
      "            is_finished = integration.status == \"finished\"\n"
      "            is_running: bool = integration.status == \"running\"\n",
      "            status = integration.status\n"
      "            integration.step()  # do the integration step\n"
      "            if not func_state.is_ok:\n"
      "                break  # some out-of-bounds thing happened! quit!\n"
      "            is_finished = status == \"finished\"\n"
      "            is_running: bool = status == \"running\"\n", "fire",
      "D10.8", "the status is read BEFORE the step: the flags are stale"),
    V("silent-search-mirrored", O,
      "                while not (dense.t_min <= t <= dense.t_max):",
      "                while (t < dense.t_min) or (dense.t_max < t):",
      "silent"),
    V("silent-state-view", O,
      "                    point[0:n] = dense(t)  # so we can interpolate "
      "the state\n                    controller(point[0:n], t, parameters, "
      "point[n:-1])",
      "                    sv = point[:n]\n"
      "                    sv[:] = dense(t)\n"
      "                    controller(sv, t, parameters, point[n:-1])",
      "silent"),
    V("silent-search-bound-mirrored", O,
      "                    if j >= n_dense:",
      "                    if not (n_dense > j):", "silent"),
]

VARIANTS += [
    V("training-runs-get-test-time", "moptipyapps/dynamic_control/system.py",
      "                self.training_steps, self.training_time,",
      "                self.training_steps, self.test_time,", "fire",
      "D10.9"),
    V("test-loop-uses-training-steps", "moptipyapps/dynamic_control/ode.py",
      "                      test_steps, test_time)",
      "                      training_steps, test_time)", "fire", "D10.9"),
    V("silent-describe-system-keywords",
      "moptipyapps/dynamic_control/system.py",
      "                self.training_steps, self.training_time,\n"
      "                self.state_dims_in_j, self.gamma)",
      "                training_time=self.training_time,\n"
      "                training_steps=self.training_steps,\n"
      "                use_state_dims=self.state_dims_in_j, "
      "gamma=self.gamma)", "silent"),
]

VARIANTS += [
    V("training-j-with-default-gamma", "moptipyapps/dynamic_control/ode.py",
      "            c(index, ode, j_from_ode(ode, len(sp), use_state_dims, "
      "gamma),\n              t_from_ode(ode))\n        index += 1\n\n",
      "            c(index, ode, j_from_ode(ode, len(sp), use_state_dims),\n"
      "              t_from_ode(ode))\n        index += 1\n\n", "fire",
      "D10.9", "seed C10-training-j-with-default-gamma (last loop)"),
]

VARIANTS += [
    V("system-dims-in-j-from-dim-mod",
      "moptipyapps/dynamic_control/system.py",
      "            else state_dims_in_j", "            else state_dim_mod",
      "fire", "D10.9", "seed C10-system-dims-in-j-from-dim-mod"),
]
