"""Self-test variants for C10."""
from sa.selftests import V

O = "moptipyapps/dynamic_control/ode.py"

VARIANTS = [
    V("retry-unbounded", O, "        if (cycle > 4) or (max_time <= 1e-10):",
      "        if max_time <= 1e-10:", "fire", "D10.1"),
    V("retry-ten-cycles", O, "        if (cycle > 4) or (max_time <= 1e-10):",
      "        if (cycle > 9) or (max_time <= 1e-10):", "fire", "D10.1"),
    V("counter-reset", O, "        if is_finished and func_state.is_ok:\n",
      "        if max_time > 40.0:\n            cycle = 0\n"
      "        if is_finished and func_state.is_ok:\n", "fire", "D10.1"),
    V("is-ok-inclusive", O, "        if not -1e10 < xx < 1e10:",
      "        if not -1e10 <= xx <= 1e10:", "fire", "D10.2"),
    V("is-ok-negated-form", O, "        if not -1e10 < xx < 1e10:",
      "        if (xx <= -1e10) or (xx >= 1e10):", "fire", "D10.2"),
    V("rows-unchecked", O,
      "                    if not _is_ok(point):  # is there an error in "
      "the vector?",
      "                    if t < 0.0:  # is there an error?", "fire",
      "D10.2"),
    V("failed-row-keeps-flag", O,
      "                        is_finished = False  # we need to quit and "
      "try again\n", "", "fire",
      "D10.2"),
    V("controller-stale-time", O,
      "                    controller(point[0:n], t, parameters, "
      "point[n:-1])",
      "                    controller(point[0:n], last_time, parameters, "
      "point[n:-1])", "fire", "D10.3"),
    V("failure-row-time", O, "    result[0, -1] = 0.0",
      "    result[0, -1] = max_time", "fire", "D10.4"),
    V("dest-too-small", O,
      "        ode.shape[1] - 1 - state_dim + use_state_dims) - "
      "use_state_dims)",
      "        ode.shape[1] - 1 - state_dim + use_state_dims) - "
      "use_state_dims - 1)", "fire", "D10.5"),
    V("compute-extra-state-block", O, "    add_state: bool = False",
      "    add_state: bool = True", "fire", "D10.5"),
    V("compute-one-more-control", O, "        while inner >= state_dim:",
      "        while inner >= state_dim - 1:", "fire", "D10.5"),
    # silent
    V("silent-failure-row-order", O,
      "    result[0, n:-1] = 1e100\n    result[0, -1] = 0.0",
      "    result[0, -1] = 0.0\n    result[0, n:-1] = 1e100", "silent"),
    V("silent-exit-test-ge", O,
      "        if (cycle > 4) or (max_time <= 1e-10):",
      "        if (cycle >= 5) or (max_time <= 1e-10):", "silent"),
]

VARIANTS += [
    V("row-check-controls-only", O,
      "                    if not _is_ok(point):  # is there an error in the "
      "vector?",
      "                    if not _is_ok(point[n:-1]):  # control ok?",
      "fire", "D10.2", "seed C10-row-check-controls-only: a slowly growing "
      "state leaves (-1e10, 1e10) unnoticed"),
    V("first-row-check-state-only", O,
      "            if not _is_ok(point):\n",
      "            if not _is_ok(point[0:n]):\n", "fire", "D10.2"),
]
