"""Self-test variants for C15."""
from sa.selftests import V

G = "moptipyapps/ttp/game_encoding.py"

VARIANTS = [
    V("no-fill", G, "    y.fill(0)  # first zero the output matrix\n", "",
      "fire", "D15.1"),
    V("days-descending", G,
      "        for day in range(days):  # iterate over all possible rows "
      "for game",
      "        for day in range(days - 1, -1, -1):  # iterate", "fire",
      "D15.1"),
    V("checks-only-home-cell", G,
      "            if (y[day, home_idx] != 0) or (y[day, away_idx] != 0):",
      "            if y[day, home_idx] != 0:", "fire", "D15.1"),
    V("no-break", G,
      "            y[day, away_idx] = -(home_idx + 1)\n            break",
      "            y[day, away_idx] = -(home_idx + 1)", "fire", "D15.1"),
    V("mirror-value-wrong", G,
      "            y[day, away_idx] = -(home_idx + 1)",
      "            y[day, away_idx] = -(away_idx + 1)", "fire", "D15"),
    V("skip-diagonal-strict", G,
      "        if away_idx >= home_idx:  # \"A vs. A\" games impossible",
      "        if away_idx > home_idx:  # \"A vs. A\" games impossible",
      "fire", "D15"),
    V("decode-wrong-divisor", G,
      "        away_idx: int = game % div  # away index in 0..n-2",
      "        away_idx: int = game % n  # away index in 0..n-2", "fire",
      "D15.3"),
    V("space-pairs-loop", G, "            for j in range(i):",
      "            for j in range(i + 1):", "fire", "D15.3"),
    V("space-code-multiplier", G, "                games.append(m1 * div + "
      "m2)", "                games.append(m1 * n + m2)", "fire", "D15.3"),
    V("space-no-compaction", G,
      "                if m2 > m1:\n                    m2 -= 1\n", "",
      "fire", "D15.3"),
    V("space-double-append", G,
      "                games.append(m1 * div + m2)  # add encoded game tuple",
      "                games.append(m1 * div + m2)\n"
      "                if r == 0:\n"
      "                    games.append(m1 * div + m2)", "fire", "D15.3"),
    # silent
    V("silent-guard-demorgan", G,
      "            if (y[day, home_idx] != 0) or (y[day, away_idx] != 0):",
      "            if not ((y[day, home_idx] == 0) and (0 == y[day, "
      "away_idx])):", "silent"),
    V("silent-store-order", G,
      "            y[day, home_idx] = away_idx + 1\n"
      "            y[day, away_idx] = -(home_idx + 1)",
      "            y[day, away_idx] = -(home_idx + 1)\n"
      "            y[day, home_idx] = 1 + away_idx", "silent"),
]

_PLACE = (
    "            if (y[day, home_idx] != 0) or (y[day, away_idx] != 0):\n"
    "                continue  # day already blocked\n"
    "            y[day, home_idx] = away_idx + 1\n"
    "            y[day, away_idx] = -(home_idx + 1)\n"
    "            break\n")
_SEARCH = (
    "            if (y[day, home_idx] == 0) and (y[day, away_idx] == 0):\n"
    "                break\n")
VARIANTS += [
    V("search-then-write-recheck-home-only", G, _PLACE, _SEARCH
      + "        if y[day, home_idx] == 0:\n"
      "            y[day, home_idx] = away_idx + 1\n"
      "            y[day, away_idx] = -(home_idx + 1)\n", "fire", "D15.1",
      "seed C15-search-then-write: an unplaceable game overwrites the away "
      "team's cell of the last day"),
    V("silent-search-then-write", G, _PLACE, _SEARCH
      + "        if (y[day, home_idx] == 0) and (y[day, away_idx] == 0):\n"
      "            y[day, home_idx] = away_idx + 1\n"
      "            y[day, away_idx] = -(home_idx + 1)\n", "silent", "",
      "behaviour-preserving refactoring: search, then write under the "
      "full re-check"),
    V("silent-positive-guard", G, _PLACE,
      "            if (y[day, home_idx] == 0) and (y[day, away_idx] == 0):\n"
      "                y[day, home_idx] = away_idx + 1\n"
      "                y[day, away_idx] = -(home_idx + 1)\n"
      "                break\n", "silent", ""),
    V("skips-a-free-day", G,
      "            if (y[day, home_idx] != 0) or (y[day, away_idx] != 0):",
      "            if (y[day, home_idx] != 0) or (y[day, away_idx] != 0) "
      "or (day == 1):", "fire", "D15.1",
      "an extra condition makes the scan pass over a free day"),
]

VARIANTS += [
    V("space-every-odd-round-special", G,
      "normal: bool = (r < (rounds - 1)) or ((rounds % 2) == 0)",
      "normal: bool = (r < (rounds - 1)) and ((rounds % 2) == 0)", "fire",
      "D15.4", "with an odd number of rounds every round toggles per pair: "
      "pairings can be one-sided"),
    V("space-last-round-always-special", G,
      "normal: bool = (r < (rounds - 1)) or ((rounds % 2) == 0)",
      "normal: bool = r < (rounds - 1)", "fire", "D15.4"),
    V("space-orientation-ignores-round", G,
      "order = ((r % 2) == 0) if normal else (not order)",
      "order = ((rounds % 2) == 0) if normal else (not order)", "fire",
      "D15.4"),
    V("silent-space-orientation-opposite-parity", G,
      "order = ((r % 2) == 0) if normal else (not order)",
      "order = ((r % 2) != 0) if normal else (not order)", "silent", "",
      "the mirrored alternation is just as balanced"),
    V("silent-space-normal-rewritten", G,
      "normal: bool = (r < (rounds - 1)) or ((rounds % 2) == 0)",
      "normal: bool = ((rounds % 2) != 1) or (r + 1 < rounds)", "silent",
      ""),
]

VARIANTS += [
    V("unplaceable-game-ends-decoding", G,
      "            y[day, away_idx] = -(home_idx + 1)\n            break\n",
      "            y[day, away_idx] = -(home_idx + 1)\n            break\n"
      "        else:\n            break\n", "fire", "D15.1",
      "seed C15-unplaceable-game-ends-decoding"),
    V("silent-unplaceable-game-is-skipped", G,
      "            y[day, away_idx] = -(home_idx + 1)\n            break\n",
      "            y[day, away_idx] = -(home_idx + 1)\n            break\n"
      "        else:\n            continue\n", "silent"),
]

VARIANTS += [
    V("games-cut-off-at-slot-count", "moptipyapps/ttp/game_encoding.py",
      "    for game in x:", "    for game in x[:days * (n // 2)]:", "fire",
      "D15.1"),
    V("games-last-one-skipped", "moptipyapps/ttp/game_encoding.py",
      "    for game in x:", "    for game in x[:-1]:", "fire", "D15.1"),
    V("silent-games-full-slice", "moptipyapps/ttp/game_encoding.py",
      "    for game in x:", "    for game in x[0:len(x)]:", "silent"),
]

GPL = "moptipyapps/ttp/game_plan.py"
VARIANTS += [
    V("plan-dtype-min-scalar-type", GPL,
      "            cls, (n_days, n), instance.game_plan_dtype)",
      "            cls, (n_days, n), np.min_scalar_type(-n))", "fire",
      "D15.5", "seed C15-plan-dtype-min-scalar-type"),
    V("silent-plan-dtype-hoisted", GPL,
      "        obj: Final[GamePlan] = super().__new__(\n"
      "            cls, (n_days, n), instance.game_plan_dtype)",
      "        cell_type = instance.game_plan_dtype\n"
      "        obj: Final[GamePlan] = super().__new__(\n"
      "            cls, (n_days, n), cell_type)", "silent", "",
      "hoisted type"),
    V("instance-plan-dtype-unsigned-range", "moptipyapps/ttp/instance.py",
      "        obj.game_plan_dtype = int_range_to_dtype(-n, n)",
      "        obj.game_plan_dtype = int_range_to_dtype(0, n)", "fire",
      "D15.5"),
]

VARIANTS += [
    V("games-skipped-by-marker", G,
      "        home_idx: int = (game // div) % n  # home idx is in 0..n-1\n",
      "        home_idx: int = (game // div) % n  # home idx is in 0..n-1\n"
      "        if home_idx == days:\n            continue\n", "fire",
      "D15.1", "a game jumps over the day scan"),
]
