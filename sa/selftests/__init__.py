"""Both-ways self-test of the checkers (DESIGN section 6).

Each variant is a small edit of the *current* tree, applied to a scratch
copy under a fresh temporary directory (outside /repo and /verif), analysed
with the very same rules, and removed.  `fire` variants must be reported by
the named rule; `silent` variants (behaviour-preserving rewrites) must not
be reported at all.  A variant whose edit does not apply to the current tree
(because the tree was changed) is skipped and counted, never an error.
"""
from __future__ import annotations

import contextlib
import importlib
import io
import json
import os
import shutil
import sys
import tempfile
from concurrent.futures import ProcessPoolExecutor
from dataclasses import dataclass, field
from typing import Any


@dataclass
class Variant:
    name: str
    file: str
    edits: list[tuple[str, str]]
    expect: str            # "fire" | "silent" | "undecided"
    rule: str = ""         # rule id that must report (fire only)
    note: str = ""
    extra: dict[str, Any] = field(default_factory=dict)


def V(name: str, file: str, old: str, new: str, expect: str,
      rule: str = "", note: str = "") -> Variant:
    return Variant(name, file, [(old, new)], expect, rule, note)


def _run_variant(args: tuple[str, Variant, str]) -> dict[str, Any]:
    prop, var, root = args
    tmp = tempfile.mkdtemp(prefix="sa_selftest_")
    try:
        for pkg in ("moptipyapps", "examples"):
            src = os.path.join(root, pkg)
            if os.path.isdir(src):
                shutil.copytree(src, os.path.join(tmp, pkg),
                                ignore=shutil.ignore_patterns(
                                    "__pycache__", "*.pyc", "*.nbi", "*.nbc"))
        path = os.path.join(tmp, var.file)
        if not os.path.isfile(path):
            return {"name": var.name, "status": "skipped",
                    "why": "file missing"}
        with open(path, encoding="utf-8") as fh:
            text = fh.read()
        for old, new in var.edits:
            if text.count(old) < 1:
                return {"name": var.name, "status": "skipped",
                        "why": f"edit anchor not found: {old[:50]!r}"}
            text = text.replace(old, new, 1)
        with open(path, "w", encoding="utf-8") as fh:
            fh.write(text)
        try:
            compile(text, path, "exec")
        except SyntaxError as se:
            return {"name": var.name, "status": "broken",
                    "why": f"variant does not compile: {se}"}
        os.environ["VERIF_EVIDENCE_DIR"] = os.path.join(tmp, "evidence")
        import sa.report as rep
        rep.EVIDENCE_DIR = os.path.join(tmp, "evidence")
        from sa.check import run_check
        buf = io.StringIO()
        with contextlib.redirect_stdout(buf):
            rc = run_check(prop, "quick", tmp)
        out = buf.getvalue()
        fired_rules: list[str] = []
        rdir = os.path.join(tmp, "evidence", "replay")
        if os.path.isdir(rdir):
            for fn in os.listdir(rdir):
                with open(os.path.join(rdir, fn), encoding="utf-8") as fh:
                    fired_rules.append(json.load(fh)["rule"])
        if var.expect == "fire":
            ok = rc == 1 and (not var.rule or any(
                r.startswith(var.rule) for r in fired_rules))
        elif var.expect == "undecided":
            # a form no rule can normalise: the check must refuse to decide
            # (exit 2), neither pass nor report a violation
            ok = rc == 2 and "VIOLATION" not in out
        else:
            ok = rc == 0
        return {"name": var.name, "status": "ok" if ok else "FAILED",
                "expect": var.expect, "rc": rc, "rules": sorted(
                    set(fired_rules)), "want_rule": var.rule,
                "output": out[-1500:] if not ok else ""}
    finally:
        shutil.rmtree(tmp, ignore_errors=True)


def variants_for(prop: str) -> list[Variant]:
    try:
        mod = importlib.import_module(f"sa.selftests.{prop.lower()}")
    except ModuleNotFoundError:
        return []
    return list(mod.VARIANTS)


def run_for(prop: str, root: str | None = None, verbose: bool = True) -> int:
    """Run all variants of one property. 0 = machinery behaves, 2 = not."""
    from sa.srcmodel import repo_root
    root = root or repo_root()
    vs = variants_for(prop)
    if not vs:
        print(f"[{prop}] self-test: no variants registered")
        return 0
    with ProcessPoolExecutor(max_workers=min(16, len(vs))) as ex:
        res = list(ex.map(_run_variant, [(prop, v, root) for v in vs]))
    bad = [r for r in res if r["status"] in ("FAILED", "broken")]
    skipped = [r for r in res if r["status"] == "skipped"]
    okc = sum(1 for r in res if r["status"] == "ok")
    if verbose:
        print(f"[{prop}] self-test: {okc} variants behaved as expected, "
              f"{len(skipped)} skipped (edit not applicable), "
              f"{len(bad)} wrong")
        for r in skipped:
            print(f"   skipped {r['name']}: {r['why']}")
        for r in bad:
            print(f"   WRONG {r['name']}: expected {r.get('expect')} "
                  f"{r.get('want_rule', '')} got rc={r.get('rc')} rules="
                  f"{r.get('rules')} {r.get('why', '')}")
            if r.get("output"):
                print("      | " + "\n      | ".join(
                    r["output"].splitlines()[-12:]))
    # append to the evidence of the real run
    try:
        from sa.report import EVIDENCE_DIR
        p = os.path.join(EVIDENCE_DIR, f"{prop}.json")
        with open(p, encoding="utf-8") as fh:
            ev = json.load(fh)
        ev["coverage"]["selftest"] = {
            "variants": len(vs), "behaved": okc, "skipped": len(skipped),
            "wrong": len(bad),
            "fire_variants": sum(1 for v in vs if v.expect == "fire"),
            "silent_variants": sum(1 for v in vs if v.expect == "silent"),
            "names": [r["name"] + ":" + r["status"] for r in res]}
        with open(p, "w", encoding="utf-8") as fh:
            json.dump(ev, fh, indent=1)
    except (OSError, KeyError, ValueError):
        pass
    if bad:
        print(f"ANALYSIS-ERROR property={prop}: self-test of the checker "
              "failed (this is about the machinery, not about /repo)")
        return 2
    return 0


if __name__ == "__main__":
    sys.exit(run_for(sys.argv[1].upper()))
