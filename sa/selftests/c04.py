"""Self-test variants for C04."""
from sa.selftests import V

F = "moptipyapps/binpacking2d/packing_space.py"

VARIANTS = [
    V("dims-and-for-or", F,
      "and ((real_width != height) or (real_height != width)):",
      "and ((real_width != height) and (real_height != width)):",
      "fire", "D4.1"),
    V("id-upper-off-by-one", F,
      "(item_id > inst.n_different_items)",
      "(item_id > inst.n_different_items + 1)", "fire", "D4.1"),
    V("id-lower-weakened", F, "if (item_id <= 0) or",
      "if (item_id < 0) or", "fire", "D4.1"),
    V("bin-upper-dropped", F,
      "if (bin_id <= 0) or (bin_id > inst.n_items):",
      "if bin_id <= 0:", "fire", "D4.1"),
    V("degenerate-rect-allowed", F,
      "if (x_left >= x_right) or (y_bottom >= y_top):",
      "if (x_left > x_right) or (y_bottom >= y_top):", "fire", "D4.1"),
    V("outside-bin-wrong-dimension", F,
      "(x_right > bin_width) \\\n                    or (y_top > bin_height)",
      "(x_right > bin_height) \\\n                    or (y_top > bin_width)",
      "fire", "D4.1"),
    V("outside-bin-dropped-top", F,
      "(x_right > bin_width) \\\n                    or (y_top > bin_height)",
      "(x_right > bin_width)", "fire", "D4.1"),
    V("overlap-touching-rejected", F,
      "if (x_left_2 < x_right) and (x_right_2 > x_left)",
      "if (x_left_2 <= x_right) and (x_right_2 > x_left)", "fire", "D4.1"),
    V("overlap-one-axis-only", F,
      "if (x_left_2 < x_right) and (x_right_2 > x_left) \\\n"
      "                        and (y_bottom_2 < y_top) and "
      "(y_top_2 > y_bottom):",
      "if (x_left_2 < x_right) and (x_right_2 > x_left) \\\n"
      "                        and (y_bottom_2 < y_top):", "fire", "D4.1"),
    V("pair-skip-wrong", F,
      "if (int(x[j, IDX_BIN]) != bin_id) or (i == j):",
      "if (int(x[j, IDX_BIN]) != bin_id) or (i <= j):", "fire", "D4.1"),
    V("pair-loop-short", F, "for j in range(inst.n_items):",
      "for j in range(inst.n_items - 1):", "fire", "D4.1L"),
    V("row-loop-short", F, "for i in range(inst.n_items):\n            "
      "item_id", "for i in range(1, inst.n_items):\n            item_id",
      "fire", "D4.1L"),
    V("row-early-continue", F,
      "            bins.add(bin_id)\n",
      "            bins.add(bin_id)\n            if bin_id > 1:\n"
      "                continue\n", "fire", "D4.1L"),
    V("multiplicity-ge", F, "if should != count:", "if should < count:",
      "fire", "D4.1"),
    V("multiplicity-wrong-column", F,
      "should: int = int(inst[item_id - 1, IDX_REPETITION])",
      "should: int = int(inst[item_id - 1, IDX_HEIGHT])", "fire", "D4.1"),
    V("bins-gap-allowed", F,
      "if (min_bin != 1) or ((max_bin - min_bin + 1) != bin_count):",
      "if min_bin != 1:", "fire", "D4.1"),
    V("nbins-not-compared", F, "if x.n_bins != bin_count:",
      "if x.n_bins < bin_count:", "fire", "D4.1"),
    V("dtype-check-dropped", F,
      "if inst.dtype is not x.dtype:", "if inst.dtype is x.dtype:",
      "fire", "D4.1T"),
    V("from-str-skips-validate", F,
      "        x.n_bins = int(x[:, IDX_BIN].max())\n        self.validate(x)"
      "\n        return x",
      "        x.n_bins = int(x[:, IDX_BIN].max())\n        if x.n_bins > 1:"
      "\n            self.validate(x)\n        return x", "fire", "D4.2"),
    V("from-str-nbins-wrong-column", F,
      "x.n_bins = int(x[:, IDX_BIN].max())",
      "x.n_bins = int(x[:, IDX_ID].max())", "fire", "D4.2"),
    # ------------------------------------------------------------- silent
    V("silent-demorgan-dims", F,
      "if ((real_width != width) or (real_height != height)) \\\n"
      "                    and ((real_width != height) or "
      "(real_height != width)):",
      "if not (((real_width == width) and (real_height == height)) \\\n"
      "                    or ((height == real_width) and "
      "(width == real_height))):", "silent"),
    V("silent-split-bounds", F,
      "            if (x_left < 0) or (y_bottom < 0) or (x_right > bin_width)"
      " \\\n                    or (y_top > bin_height):\n"
      "                raise ValueError(",
      "            if x_left < 0:\n                raise ValueError('l')\n"
      "            if 0 > y_bottom:\n                raise ValueError('b')\n"
      "            if (bin_width < x_right) or not (y_top <= bin_height):\n"
      "                raise ValueError(", "silent"),
    V("silent-id-lt-1", F, "if (item_id <= 0) or", "if (item_id < 1) or",
      "silent"),
    V("silent-pair-triangle", F, "for j in range(inst.n_items):",
      "for j in range(i):", "silent"),
    V("silent-contiguity-max", F,
      "if (min_bin != 1) or ((max_bin - min_bin + 1) != bin_count):",
      "if (1 != min_bin) or (max_bin != bin_count):", "silent"),
]

VARIANTS += [
    V("dimensions-side-by-side", F,
      "            if ((real_width != width) or (real_height != height)) \\\n"
      "                    and ((real_width != height) or (real_height != "
      "width)):",
      "            if (real_width not in (width, height)) \\\n"
      "                    or (real_height not in (width, height)):",
      "fire", "D4.1", "seed C04-dimensions-checked-side-by-side: a w x w "
      "square passes for a w x h item"),
    V("dimensions-by-tuple-membership", F,
      "            if ((real_width != width) or (real_height != height)) \\\n"
      "                    and ((real_width != height) or (real_height != "
      "width)):",
      "            if (real_width, real_height) not in ((width, height), "
      "(height, width)):", "silent", "",
      "a correct rewrite through tuple membership (component-wise "
      "equalities)"),
    V("dimensions-by-set-of-sizes", F,
      "            if ((real_width != width) or (real_height != height)) \\\n"
      "                    and ((real_width != height) or (real_height != "
      "width)):",
      "            if sorted((real_width, real_height)) != sorted((width, "
      "height)):", "undecided", "",
      "a correct rewrite outside the term language (sorted tuples): the "
      "clause has only this guard, the run ends undecided, not as a "
      "violation"),
]


VARIANTS += [
    V("from-str-truncates-long-text", F,
      "np.fromstring(text, dtype=x.dtype, sep=CSV_SEPARATOR)",
      "np.fromstring(text, dtype=x.dtype, sep=CSV_SEPARATOR, "
      "count=x.size)", "fire", "D4.2",
      "seed C04-from-str-truncates-long-text"),
    V("silent-from-str-count-all", F,
      "np.fromstring(text, dtype=x.dtype, sep=CSV_SEPARATOR)",
      "np.fromstring(text, dtype=x.dtype, sep=CSV_SEPARATOR, count=-1)",
      "silent", "", "count=-1 is the default"),
]
