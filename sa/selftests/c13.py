"""Self-test variants for C13."""
from sa.selftests import V

E1 = "moptipyapps/binpacking2d/encodings/ibl_encoding_1.py"
E2 = "moptipyapps/binpacking2d/encodings/ibl_encoding_2.py"
O = "moptipyapps/binpacking2d/objectives/"
T = "moptipyapps/ttp/"

VARIANTS = [
    V("self-play-guard-removed", T + "errors.py",
      "            if team_1 == team_2:  # a team cannot play against itself:"
      "\n                continue  # already counted as error above, no pair "
      "index\n", "", "fire", "D13.1"),
    V("pair-loop-off-by-one", T + "errors.py",
      "        for j in range(i):\n            ij = temp_2[i, j]",
      "        for j in range(i + 2):\n            ij = temp_2[i, j]",
      "fire", "D13.1"),
    V("temp1-too-small", T + "errors.py",
      "np.empty(n * (n - 1) // 2, dtype)",
      "np.empty(n * (n - 1) // 2 - 1, dtype)", "fire", "D13.3"),
    V("plan-validator-loosened", T + "game_plan_space.py",
      "if not (min_id <= v <= n):", "if not (min_id <= v <= n + 1):",
      "fire", "D13.3"),
    V("plan-length-no-minus-1", T + "plan_length.py",
      "next_location = (-next_location) - 1",
      "next_location = -next_location", "fire", "D13.1"),
    V("map-games-no-mod", T + "game_encoding.py",
      "home_idx: int = (game // div) % n", "home_idx: int = game // div",
      "fire", "D13.1"),
    V("enc1-use-id-off", E1,
      "            use_id = item_id - 1   # id - 1",
      "            use_id = item_id   # id - 1", "fire", "D13.1"),
    V("enc1-blocker-range", E1,
      "    min_down: int = packing_i1_bottom_y  # maximum move: down to "
      "bottom\n    for i0 in range(bin_start, i1):",
      "    min_down: int = packing_i1_bottom_y  # maximum move: down to "
      "bottom\n    for i0 in range(bin_start, i1 + 2):", "fire", "D13.1"),
    V("enc2-window-lookup", E2,
      "bin_end = bin_ends[item_bin - 1]", "bin_end = bin_ends[item_bin]",
      "fire", "D13.1"),
    V("enc2-bin-end-too-far", E2,
      "bin_ends[item_bin - 1] = i + 1  # index after last item in bin",
      "bin_ends[item_bin - 1] = i + 3  # index after last item in bin",
      "fire", "D13.1"),
    V("enc2-scratch-too-small", E2,
      "np.empty(\n            instance.n_items, instance.dtype)",
      "np.empty(\n            instance.n_items - 1, instance.dtype)",
      "fire", "D13.3"),
    V("objective-key-not-minus-1", O + "bin_count_and_empty.py",
      "bin_idx: int = int(y[i, IDX_BIN]) - 1",
      "bin_idx: int = int(y[i, IDX_BIN])", "fire", "D13.1"),
    V("tsp-kernel-no-wrap", "moptipyapps/tsp/ea1p1_revn.py",
      "xjp1: Final[int] = x[(j + 1) % n_cities]",
      "xjp1: Final[int] = x[j + 2]", "fire", "D13.1"),
    V("qap-wrong-axis", "moptipyapps/qap/objective.py",
      "for j, xj in enumerate(x):\n            result += flows[i, j]",
      "for j, xj in enumerate(x):\n            result += flows[i, j + 1]",
      "fire", "D13.1"),
    V("controller-index-beyond", 
      "moptipyapps/dynamic_control/controllers/linear.py",
      "+ (state[2] * params[2])", "+ (state[2] * params[3])", "fire",
      "D13.1"),
    V("new-kernel-without-contract", "moptipyapps/tsp/tour_length.py",
      "class TourLength(Objective):",
      "@numba.njit(cache=True, boundscheck=False)\n"
      "def first_city(x: np.ndarray, k: int) -> int:\n"
      "    return x[k]\n\n\nclass TourLength(Objective):", "fire", "D13.2"),
    V("errors-swapped-scratch", T + "errors.py",
      "                            self.__temp_1, self.__temp_2)",
      "                            self.__temp_2, self.__temp_1)", "fire",
      "D13.3"),
    V("enc2-swapped-tables", E2,
      "                           self.__instance.bin_height, "
      "self.__bin_starts,\n                           self.__bin_ends)",
      "                           self.__instance.bin_height, "
      "self.__bin_ends,\n                           self.__bin_starts)",
      "fire", "D13.3",
      note="swapped tables: the kernel's range reasoning about each table "
           "no longer matches the array it gets"),
    # silent
    V("silent-blocker-range-wraps", E1,
      "    min_down: int = packing_i1_bottom_y  # maximum move: down to "
      "bottom\n    for i0 in range(bin_start, i1):",
      "    min_down: int = packing_i1_bottom_y  # maximum move: down to "
      "bottom\n    for i0 in range(bin_start - 1, i1):", "silent",
      note="index -1 wraps to the last row: wrong rule (C14) but no "
           "out-of-bounds access"),
    V("silent-rename-hoist", T + "plan_length.py",
      "            length += distances[current_location, next_location]\n"
      "            current_location = next_location",
      "            here = current_location\n"
      "            current_location = next_location\n"
      "            length += distances[here, current_location]", "silent"),
    V("silent-loop-bound-flip", T + "errors.py",
      "        for j in range(i):\n            ij = temp_2[i, j]",
      "        for j in range(0, i):\n            ij = temp_2[i, j]",
      "silent"),
    V("silent-boundscheck-flag", "moptipyapps/tsp/tour_length.py",
      "fastmath=False, boundscheck=False)", "fastmath=False, "
      "boundscheck=True)", "silent"),
]

_PLACE = (
    "            if (y[day, home_idx] != 0) or (y[day, away_idx] != 0):\n"
    "                continue  # day already blocked\n"
    "            y[day, home_idx] = away_idx + 1\n"
    "            y[day, away_idx] = -(home_idx + 1)\n"
    "            break\n")
_SEARCH = (
    "            if (y[day, home_idx] == 0) and (y[day, away_idx] == 0):\n"
    "                break\n")
VARIANTS += [
    V("silent-loop-variable-after-loop", T + "game_encoding.py", _PLACE,
      _SEARCH
      + "        if (y[day, home_idx] == 0) and (y[day, away_idx] == 0):\n"
      "            y[day, home_idx] = away_idx + 1\n"
      "            y[day, away_idx] = -(home_idx + 1)\n", "silent", "",
      "the loop target keeps its last value (days - 1) after exhaustion"),
    V("loop-variable-after-loop-plus-one", T + "game_encoding.py", _PLACE,
      _SEARCH
      + "        if (y[day, home_idx] == 0) and (y[day, away_idx] == 0):\n"
      "            y[day, home_idx] = away_idx + 1\n"
      "            y[day + 1, away_idx] = -(home_idx + 1)\n", "fire",
      "D13.1"),
]

OD = "moptipyapps/dynamic_control/ode.py"
VARIANTS += [
    V("training-runs-default-control-width", OD,
      "        ode = run_ode(sp, equations, controller, parameters, "
      "controller_dim,\n                      training_steps, "
      "training_time)",
      "        ode = run_ode(sp, equations, controller, parameters,\n"
      "                      steps=training_steps, max_time=training_time)",
      "fire", "D13.3", "seed C13-training-runs-default-control-width"),
    V("silent-run-ode-keywords", OD,
      "        ode = run_ode(sp, equations, controller, parameters, "
      "controller_dim,\n                      training_steps, "
      "training_time)",
      "        ode = run_ode(sp, equations, controller, parameters,\n"
      "                      controller_dim=controller_dim,\n"
      "                      steps=training_steps, max_time=training_time)",
      "silent", "", "keyword spelling of the same call"),
]
