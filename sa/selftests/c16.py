"""Self-test variants for C16."""
from sa.selftests import V, Variant

P = "moptipyapps/dynamic_control/controllers/"
S = "moptipyapps/dynamic_control/systems/"

VARIANTS = [
    V("cubic3d-drop-monomial", P + "cubic.py",
      " + (s0 * s1 * s2 * params[18])", "", "fire", "D16"),
    V("cubic2d-dup-param", P + "cubic.py",
      "(s0 * s12 * params[7])", "(s0 * s12 * params[6])", "fire", "D16"),
    V("quadratic-wrong-monomial", P + "quadratic.py",
      "(s0 * s1 * params[3])", "(s0 * s0 * params[3])", "fire", "D16.1"),
    V("quadratic-coefficient", P + "quadratic.py",
      "(s1 * s1 * params[4])", "(2.0 * s1 * s1 * params[4])", "fire",
      "D16.1"),
    V("linear-factory-dims", P + "linear.py",
      "Controller(name, 3, 1, 3, __linear_3d_1o)",
      "Controller(name, 3, 1, 4, __linear_3d_1o)", "fire", "D16.0"),
    V("cascade-stale-d", P + "partially_linear.py",
      "        o = (s0 * params[6]) + (s1 * params[7])\n        d = d2\n",
      "        o = (s0 * params[6]) + (s1 * params[7])\n", "fire", "D16.2"),
    V("cascade-flipped-test", P + "partially_linear.py",
      "    d2 = ((s0 - params[8]) ** 2.0) + ((s1 - params[9]) ** 2.0)\n"
      "    if d2 < d:",
      "    d2 = ((s0 - params[8]) ** 2.0) + ((s1 - params[9]) ** 2.0)\n"
      "    if d2 > d:", "fire", "D16.2"),
    V("cascade-anchor-shares-param", P + "partially_linear.py",
      "((s0 - params[4]) ** 2.0) + ((s1 - params[5]) ** 2.0)\n    if d2 < d:"
      "\n        o = (s0 * params[6]) + (s1 * params[7])\n    out[0] = o",
      "((s0 - params[4]) ** 2.0) + ((s1 - params[4]) ** 2.0)\n    if d2 < d:"
      "\n        o = (s0 * params[6]) + (s1 * params[7])\n    out[0] = o",
      "fire", "D16"),
    V("peaks-missing-state", P + "peaks.py",
      "+ params[4] * __peak(params[5] + (params[6] * s0)\n"
      "                             + (params[7] * s1))\n\n",
      "+ params[4] * __peak(params[5] + (params[6] * s0)\n"
      "                             + (params[7] * s0))\n\n",
      "fire", "D16.3"),
    V("peak-activation-sign", P + "peaks.py",
      "return np.exp(-(a * a))", "return np.exp(a * a)", "fire", "D16.3"),
    V("minann-slice-overlap", P + "min_ann.py",
      "hl_1_2_in: Final[float] = (state * params[5:8]).sum()",
      "hl_1_2_in: Final[float] = (state * params[4:7]).sum()",
      "fire", "D16.3"),
    V("lorenz-rho", S + "lorenz.py", "28.0 * x - y", "28.0 * x + y",
      "fire", "D16.5"),
    V("lorenz-beta", S + "lorenz.py", "2.6666666666666665 * z",
      "2.6 * z", "fire", "D16.5"),
    V("stuart-landau-control-component", S + "stuart_landau.py",
      "out[0] = sigma * state[0] - state[1]\n"
      "    out[1] = sigma * state[1] + state[0] + control[0]",
      "out[0] = sigma * state[0] - state[1] + control[0]\n"
      "    out[1] = sigma * state[1] + state[0]", "fire", "D16.5"),
    V("oscillators-pi", S + "three_coupled_oscillators.py",
      "out[4] = (sigma3 * a5) - (__PI2 * a6)",
      "out[4] = (sigma3 * a5) - (pi * a6)", "fire", "D16.5"),
    V("system-mutates-state", S + "lorenz.py",
      "    out[0] = 10.0 * (y - x)",
      "    state[0] = x\n    out[0] = 10.0 * (y - x)", "fire", "D16.6"),
    V("controller-mutates-params", P + "linear.py",
      "    out[0] = (state[0] * params[0]) + (state[1] * params[1])\n",
      "    params[0] = params[0] * 1.0\n"
      "    out[0] = (state[0] * params[0]) + (state[1] * params[1])\n",
      "fire", "D16"),
    V("ann-shared-weight", P + "ann.py",
      "            write(f\"{var} = np.arctan(params[{params}]\")  # the bias"
      "\n            params += 1\n",
      "            write(f\"{var} = np.arctan(params[{params}]\")  # the bias"
      "\n", "fire", "D16.4"),
    V("ann-skipped-param", P + "ann.py",
      "        writeln(\")\")\n\n    result: Final[Controller]",
      "        writeln(\")\")\n        params += 1\n\n"
      "    result: Final[Controller]", "fire", "D16.4"),
    V("ann-early-recycle", P + "ann.py",
      "    for layer in layers:\n        for _ in range(layer):",
      "    for layer in layers:\n        vars_cached.extend(vars_in)\n"
      "        for _ in range(layer):", "fire", "D16.4"),
    V("ann-out-index-range", P + "ann.py",
      "    for i in range(control_dims):\n        write(f\"out[{i}]",
      "    for i in range(state_dims):\n        write(f\"out[{i}]",
      "fire", "D16.4"),
    # ---------------------------------------------------------- silent twins
    V("silent-reorder-terms", P + "quadratic.py",
      "out[0] = (s0 * params[0]) + (s1 * params[1]) + (s0 * s0 * params[2])",
      "out[0] = (s1 * params[1]) + (params[0] * s0) + (s0 * params[2] * s0)",
      "silent"),
    V("silent-temp-product", P + "cubic.py",
      "    s22: Final[float] = s2 * s2\n    out[0] = (s0 * params[0])",
      "    s22: Final[float] = s2 * s2\n    s01 = s1 * s0\n"
      "    out[0] = (s0 * params[0])", "silent"),
    V("silent-cascade-min", P + "partially_linear.py",
      "    if d2 < d:\n        o = (s0 * params[6]) + (s1 * params[7])\n"
      "        d = d2\n\n    d2 = ((s0 - params[8]) ** 2.0) + "
      "((s1 - params[9]) ** 2.0)\n    if d2 < d:\n"
      "        o = (s0 * params[10]) + (s1 * params[11])\n\n    out[0] = o",
      "    if d > d2:\n        o = (s0 * params[6]) + (s1 * params[7])\n"
      "        d = d2\n\n    d2 = ((s0 - params[8]) ** 2.0) + "
      "((s1 - params[9]) ** 2.0)\n    if not (d2 >= d):\n"
      "        o = (s0 * params[10]) + (s1 * params[11])\n\n    out[0] = o",
      "silent"),
    V("silent-cascade-le", P + "partially_linear.py",
      "    if d2 < d:\n        o = (s0 * params[6]) + (s1 * params[7])\n"
      "    out[0] = o",
      "    if d2 <= d:\n        o = (s0 * params[6]) + (s1 * params[7])\n"
      "    out[0] = o", "silent",
      note="ties may go to either nearest anchor"),
    V("silent-lorenz-rewrite", S + "lorenz.py",
      "out[0] = 10.0 * (y - x)", "out[0] = (10.0 * y) - (x * 10.0)",
      "silent"),
    V("silent-peak-inline", P + "peaks.py",
      "    out[0] = params[0] * __peak(params[1] + (params[2] * state[0])\n"
      "                                + (params[3] * state[1]))",
      "    a = params[1] + (params[3] * state[1]) + (state[0] * params[2])\n"
      "    out[0] = np.exp(-(a ** 2)) * params[0]", "silent"),
]

CG = "moptipyapps/dynamic_control/controllers/codegen.py"
AN = "moptipyapps/dynamic_control/controllers/ann.py"
LI = "moptipyapps/dynamic_control/controllers/linear.py"
SL = "moptipyapps/dynamic_control/systems/stuart_landau.py"
VARIANTS += [
    V("ann-inputs-never-defined", AN,
      "        writeln(f\"{vv} = state[{i}]\")\n", "", "fire", "D16.7"),
    V("ann-neuron-not-closed", AN,
      "                params += 1\n            writeln(\")\")\n"
      "        vars_cached.extend",
      "                params += 1\n            writeln(\"\")\n"
      "        vars_cached.extend", "fire", "D16.7"),
    V("ann-fresh-names-collide", AN,
      "                var_count += 1\n", "", "fire", "D16.7"),
    V("ann-pop-from-empty", AN, "            if len(vars_cached) > 0:",
      "            if len(vars_cached) >= 0:", "fire", "D16.7"),
    V("ann-output-without-multiplier", AN,
      "        write(f\"out[{i}] = params[{params}] * \")  # the multiplier\n"
      "        params += 1\n        write(f\"np.arctan(params[{params}]\")",
      "        write(f\"out[{i}] = np.arctan(params[{params}]\")", "fire",
      "D16.7"),
    V("anns-dimensions-swapped", AN,
      "    return (make_ann(state_dims, control_dims, []),",
      "    return (make_ann(control_dims, state_dims, []),", "fire", "D16.7"),
    V("ann-controller-dims-swapped", AN,
      "        state_dims, control_dims, params, code.build())",
      "        control_dims, state_dims, params, code.build())", "fire",
      "D16.7"),
    V("codegen-indent-not-at-line-start", CG,
      "        if self.__start:\n            self.__write(self.__indent * "
      "\"    \")",
      "        if not self.__start:\n            self.__write(self.__indent"
      " * \"    \")", "fire", "D16.8"),
    V("codegen-three-space-indent", CG, "self.__indent * \"    \")",
      "self.__indent * \"   \")", "fire", "D16.8"),
    V("codegen-no-newline", CG, "            self.__write(\"\\n\")\n", "",
      "fire", "D16.8"),
    V("codegen-unindent-adds", CG, "        self.__indent -= 1",
      "        self.__indent += 1", "fire", "D16.8"),
    V("linear-2d-for-3d-systems", LI, "    if system.state_dims == 2:",
      "    if system.state_dims != 2:", "fire", "D16.0"),
    V("linear-control-dims-guard", LI, "    if system.control_dims != 1:",
      "    if system.control_dims == 1:", "fire", "D16.0"),
    V("stuart-landau-declares-three-states", SL,
      "        \"stuart_landau\", 2, 1, 2, 2, 0.1,",
      "        \"stuart_landau\", 3, 1, 2, 2, 0.1,", "fire", "D16.5"),
    V("silent-ann-no-recycling", AN,
      "        vars_cached.extend(vars_in)  # old inputs ready for reuse\n",
      "", "silent", "", "only more fresh variables are used"),
]

VARIANTS += [
    V("ann-cache-key-without-control-dims", AN,
      "    description = \"_\".join(map(str, ([state_dims, control_dims, "
      "*layers])))",
      "    description = \"_\".join(map(str, ([state_dims, *layers])))",
      "fire", "D16.9", "seed C16-ann-cache-key-without-control-dims"),
    V("ann-cache-store-under-other-key", AN,
      "    setattr(make_ann, description, result)  # cache the controller",
      "    setattr(make_ann, f\"{description}_\", result)", "fire", "D16.9"),
    V("silent-ann-cache-key-fstring", AN,
      "    description = \"_\".join(map(str, ([state_dims, control_dims, "
      "*layers])))\n    description = f\"__cache_{description}\"",
      "    description = (f\"__cache_{state_dims}_{control_dims}_\"\n"
      "                   + \"_\".join(map(str, layers)))", "silent"),
]

VARIANTS += [
    V("min-ann-probe-beyond-interval", P + "min_ann.py",
      "        while x_b < 1000.0:", "        while x_b <= 1000.0:", "fire",
      "D16.3"),
]

PD = P + "predefined.py"
VARIANTS += [
    V("quotient-guarded-by-other-divisor", PD,
      "    b = params[1]\n    z = np.tanh(1.0 if b == 0 else z / b)",
      "    b1 = params[1]\n    z = np.tanh(1.0 if b == 0 else z / b1)",
      "fire", "D16.10"),
    V("quotient-guard-dropped", PD,
      "    out[0] = params[2] * np.sin((params[3] / a) if (a != 0.0) "
      "else 1.0)", "    out[0] = params[2] * np.sin(params[3] / a)", "fire",
      "D16.10"),
    V("quotient-guard-inverted", PD,
      "    out[0] = params[2] * np.sin((params[3] / a) if (a != 0.0) "
      "else 1.0)",
      "    out[0] = params[2] * np.sin((params[3] / a) if (a == 0.0) "
      "else 1.0)", "fire", "D16.10"),
    V("silent-quotient-if-statement", PD,
      "    out[0] = params[2] * np.sin((params[3] / a) if (a != 0.0) "
      "else 1.0)",
      "    q = 1.0\n    if a != 0.0:\n        q = params[3] / a\n"
      "    out[0] = params[2] * np.sin(q)", "silent"),
    V("silent-quotient-fresh-names", PD,
      "    b = params[1]\n    z = np.tanh(1.0 if b == 0 else z / b)",
      "    b1 = params[1]\n    z = np.tanh(z / b1 if b1 != 0 else 1.0)",
      "silent"),
    V("silent-quotient-abs-threshold", PD,
      "    b = params[1]\n    z = np.tanh(1.0 if b == 0 else z / b)",
      "    b = params[1]\n    z = np.tanh(z / b if abs(b) > 0.0 else 1.0)",
      "silent"),
]

VARIANTS += [
    Variant("silent-quotient-guard-hoisted-zero", PD, [
        ("@numba.njit(cache=True, inline=\"always\", fastmath=True, "
         "boundscheck=False)\ndef __table_3_1_lgpc(",
         "_ZERO = 0.0\n\n\n@numba.njit(cache=True, inline=\"always\", "
         "fastmath=True, boundscheck=False)\ndef __table_3_1_lgpc("),
        ("(params[3] / a) if (a != 0.0) else 1.0",
         "(params[3] / a) if (a != _ZERO) else 1.0")], "silent"),
]

VARIANTS += [
    V("ann-cache-key-without-separator", P + "ann.py",
      "    description = \"_\".join(map(str, ([state_dims, control_dims, "
      "*layers])))",
      "    description = \"\".join(map(str, (state_dims, control_dims, "
      "*layers)))", "fire", "D16.9"),
    V("silent-ann-cache-key-other-separator", P + "ann.py",
      "    description = \"_\".join(map(str, ([state_dims, control_dims, "
      "*layers])))",
      "    description = \"x\".join(map(str, (state_dims, control_dims, "
      "*layers)))", "silent"),
]
