"""Self-test variants for C01."""
from sa.selftests import V

E1 = "moptipyapps/binpacking2d/encodings/ibl_encoding_1.py"
E2 = "moptipyapps/binpacking2d/encodings/ibl_encoding_2.py"
I = "moptipyapps/binpacking2d/instance.py"

VARIANTS = [
    V("rotation-guard-and", E1,
      "        if (w > bin_width) or (h > bin_height):\n            w, h = h, w",
      "        if (w > bin_width) and (h > bin_height):\n            w, h = h, w",
      "fire", "D1.1"),
    V("rotation-guard-wrong-side", E2,
      "        if (w > bin_width) or (h > bin_height):",
      "        if (w > bin_height) or (h > bin_width):", "fire", "D1.1"),
    V("rotation-guard-dropped", E1,
      "        if (w > bin_width) or (h > bin_height):\n            w, h = h, w\n",
      "", "fire", "D1.1"),
    V("constructor-accepts-too-big", I,
      "            if (width > min_dim) and (height > min_dim):",
      "            if (width > max_dim) and (height > min_dim):", "fire",
      "D1.1"),
    V("constructor-range-loosened", I,
      "width = check_int_range(int(width), \"width\", 1, max_dim)",
      "width = check_int_range(int(width), \"width\", 1, 2 * max_dim)",
      "fire", "D1.1"),
    V("move-one-edge-only", E2,
      "        packing[i1, IDX_RIGHT_X] = packing_i1_right_x - min_left\n",
      "        packing[i1, IDX_RIGHT_X] = packing_i1_right_x\n", "fire",
      "D1.2"),
    V("move-start-bound", E1,
      "    min_left: int = packing_i1_left_x\n",
      "    min_left: int = packing_i1_right_x\n", "fire", "D1.3"),
    V("reset-size-wrong", E1,
      "            y[i, IDX_TOP_Y] = h  # and its top end is its height",
      "            y[i, IDX_TOP_Y] = w  # and its top end is its height",
      "fire", "D1.2"),
    V("drop-left-uses-height", E2,
      "            y[i, IDX_LEFT_X] = bin_width - w  # the left end",
      "            y[i, IDX_LEFT_X] = bin_width - h  # the left end",
      "fire", "D1.2"),
    V("fit-test-forgets-top", E2,
      "            if (y[i, IDX_RIGHT_X] <= bin_width) \\\n"
      "                    and (y[i, IDX_TOP_Y] <= bin_height):",
      "            if y[i, IDX_RIGHT_X] <= bin_width:", "fire", "D1.3"),
    V("fit-test-plus-one", E1,
      "        if (y[i, IDX_RIGHT_X] > bin_width) or (y[i, IDX_TOP_Y] > "
      "bin_height):",
      "        if (y[i, IDX_RIGHT_X] > bin_width + 1) or (y[i, IDX_TOP_Y] "
      "> bin_height):", "fire", "D1.3"),
    V("id-sign-branch", E1,
      "            use_id = -(item_id + 1)  # get absolute id - 1",
      "            use_id = -item_id  # get absolute id - 1", "fire",
      "D1.4"),
    V("bin-counter-double-step", E2,
      "            bin_id = bin_id + 1  # step to the next bin",
      "            bin_id = bin_id + 2  # step to the next bin", "fire",
      "D1.5"),
    V("returns-wrong-count", E1,
      "    return int(bin_id)  # return the total number of bins",
      "    return int(bin_start)  # return the total number of bins",
      "fire", "D1.5"),
    V("dtype-too-small", I,
      "max_dim + max_size + 1, n_items + 1), force_signed=True))",
      "max_dim + 1, n_items + 1), force_signed=True))", "fire", "D1.6"),
    V("down-blocker-test-too-strict", E1,
      "        if (packing[i0, IDX_RIGHT_X] > packing_i1_left_x) and \\\n",
      "        if (packing[i0, IDX_RIGHT_X] > packing_i1_left_x + 1) and "
      "\\\n", "fire", "D1.7"),
    V("down-distance-to-bottom-of-blocker", E1,
      "                packing_i1_bottom_y - packing[i0, IDX_TOP_Y]))",
      "                packing_i1_bottom_y - packing[i0, IDX_BOTTOM_Y]))",
      "fire", "D1.7"),
    V("left-blocker-ignores-vertical-touch", E2,
      "        elif (packing_i1_top_y > packing[i0, IDX_BOTTOM_Y]) \\\n"
      "                and (packing_i1_bottom_y < packing[i0, IDX_TOP_Y]):",
      "        elif (packing_i1_top_y > packing[i0, IDX_BOTTOM_Y] + 1) "
      "\\\n"
      "                and (packing_i1_bottom_y < packing[i0, IDX_TOP_Y]):",
      "fire", "D1.7"),
    # silent
    V("silent-more-blockers", E1,
      "                (packing[i0, IDX_BOTTOM_Y] < packing_i1_top_y):",
      "                (packing[i0, IDX_BOTTOM_Y] <= packing_i1_top_y):",
      "silent", note="treating a flush lid as blocker only shortens moves: "
                     "still feasible (the rule deviation is C14's)"),
    V("silent-stricter-fit", E2,
      "            if (y[i, IDX_RIGHT_X] <= bin_width) \\\n"
      "                    and (y[i, IDX_TOP_Y] <= bin_height):",
      "            if (y[i, IDX_RIGHT_X] < bin_width) \\\n"
      "                    and (y[i, IDX_TOP_Y] <= bin_height):", "silent",
      note="a stricter fit test changes which packing is produced (C14), "
           "not its feasibility"),
    V("silent-rotation-flipped", E1,
      "        if (w > bin_width) or (h > bin_height):",
      "        if not ((w <= bin_width) and (bin_height >= h)):", "silent"),
    V("silent-dtype-wider", I,
      "max_dim + max_size + 1, n_items + 1), force_signed=True))",
      "max_dim + max_size + 2, n_items + 1), force_signed=True))",
      "silent"),
]

VARIANTS += [
    V("wrapper-width-height-swapped", E1,
      "        y.n_bins = _decode(x, y, self.__instance, self.__instance."
      "bin_width,\n                           self.__instance.bin_height)",
      "        y.n_bins = _decode(x, y, self.__instance, self.__instance."
      "bin_height,\n                           self.__instance.bin_width)",
      "fire", "D1.8"),
    V("wrapper-bin-count-not-stored", E1,
      "        y.n_bins = _decode(x, y, self.__instance,",
      "        _ = _decode(x, y, self.__instance,", "fire", "D1.8"),
]
