"""Self-test variants for C17."""
from sa.selftests import V, Variant

D = "moptipyapps/binpacking2d/instgen/inst_decoding.py"
G = "moptipyapps/binpacking2d/instgen/"

VARIANTS = [
    V("ledger-not-updated", D,
      "                        current_area -= cut_position * "
      "item_size_in_other_dim\n", "", "fire", "D17.1"),
    V("ledger-wrong-dimension", D,
      "current_area -= cut_position * item_size_in_other_dim",
      "current_area -= cut_position * item_size_in_dim", "fire", "D17.1"),
    V("ledger-updated-on-other-path", D,
      "                        current_area -= cut_position * "
      "item_size_in_other_dim\n                        break  # we cut one "
      "item and can stop\n\n                sel_i = ((((sel_i + sel_dir) % "
      "cur_n_items) + cur_n_items)\n                         % cur_n_items)\n"
      "                if sel_i == orig_sel_i:\n"
      "                    cut_dimension = 1 - cut_dimension\n"
      "                    step += 1",
      "                        break  # we cut one "
      "item and can stop\n\n                sel_i = ((((sel_i + sel_dir) % "
      "cur_n_items) + cur_n_items)\n                         % cur_n_items)\n"
      "                if sel_i == orig_sel_i:\n"
      "                    cut_dimension = 1 - cut_dimension\n"
      "                    current_area -= 1\n"
      "                    step += 1", "fire", "D17.1"),
    V("limit-wrong-dimension", D,
      "(current_area - min_area) // item_size_in_other_dim,",
      "(current_area - min_area) // item_size_in_dim,", "fire", "D17.1"),
    V("limit-ignores-min-area", D,
      "(current_area - min_area) // item_size_in_other_dim,",
      "current_area // item_size_in_other_dim,", "fire", "D17.1"),
    V("phase1-piece-lost", D,
      "                        cur_item[cut_dimension] = (\n"
      "                            item_size_in_dim - cut_position)",
      "                        cur_item[cut_dimension] = (\n"
      "                            item_size_in_dim - cut_position - 1)",
      "fire", "D17.1"),
    V("phase1-no-copy", D,
      "                        cur_item = cur_item.copy()\n", "", "fire",
      "D17.1"),
    V("phase1-double-append", D,
      "                        items.append(cur_item)\n",
      "                        items.append(cur_item)\n"
      "                        items.append(cur_item)\n", "fire", "D17.1"),
    V("silent-min-area-margin-only", D,
      "min_area: Final[int] = current_area - bin_area + 1",
      "min_area: Final[int] = current_area - bin_area", "silent",
      note="alone harmless: the `- 1` of the cut limit keeps one unit"),
    V("silent-limit-margin-only", D,
      "                    item_size_in_dim) - 1\n                if "
      "cut_modulus > 0:\n                    cut_position = (((int(\n"
      "                        cut_modulus * cutter) % cut_modulus) + "
      "cut_modulus)\n                        % cut_modulus) + 1\n\n"
      "                    if 0 < cut_position < item_size_in_dim:\n"
      "                        # We cut away",
      "                    item_size_in_dim - 1)\n                if "
      "cut_modulus > 0:\n                    cut_position = (((int(\n"
      "                        cut_modulus * cutter) % cut_modulus) + "
      "cut_modulus)\n                        % cut_modulus) + 1\n\n"
      "                    if 0 < cut_position < item_size_in_dim:\n"
      "                        # We cut away", "silent",
      note="alone harmless: min_area's + 1 keeps one unit"),
    Variant("both-margins-removed", D, [
        ("min_area: Final[int] = current_area - bin_area + 1",
         "min_area: Final[int] = current_area - bin_area"),
        ("                    item_size_in_dim) - 1\n                if "
         "cut_modulus > 0:\n                    cut_position = (((int(\n"
         "                        cut_modulus * cutter) % cut_modulus) + "
         "cut_modulus)\n                        % cut_modulus) + 1\n\n"
         "                    if 0 < cut_position < item_size_in_dim:\n"
         "                        # We cut away",
         "                    item_size_in_dim - 1)\n                if "
         "cut_modulus > 0:\n                    cut_position = (((int(\n"
         "                        cut_modulus * cutter) % cut_modulus) + "
         "cut_modulus)\n                        % cut_modulus) + 1\n\n"
         "                    if 0 < cut_position < item_size_in_dim:\n"
         "                        # We cut away")], "fire", "D17.1"),
    V("min-area-too-low", D,
      "min_area: Final[int] = current_area - bin_area + 1",
      "min_area: Final[int] = current_area - bin_area - 1", "fire",
      "D17"),
    V("instance-swapped-dims", D,
      "self.space.inst_name, bin_width, bin_height, items)",
      "self.space.inst_name, bin_height, bin_width, items)", "fire",
      "D17.2"),
    V("seed-not-from-x", D,
      "default_rng(int.from_bytes(x.tobytes())).shuffle(items)",
      "default_rng().shuffle(items)", "fire", "D17.3"),
    V("decode-keeps-state", D,
      "        if list.__len__(y) > 0:  # If the destination",
      "        self.last = res\n        if list.__len__(y) > 0:  # If the "
      "destination", "fire", "D17.3"),
    V("hardness-unclamped", G + "hardness.py",
      "return max(0.0, min(1.0, result / runs))", "return result / runs",
      "fire", "D17.4"),
    V("errors-and-hardness-clamp", G + "errors_and_hardness.py",
      "return max(0.0, min(1.0, ((self.hardness.evaluate(",
      "return max(0.0, min(2.0, ((self.hardness.evaluate(", "fire",
      "D17.4"),
    # silent
    V("silent-ledger-before-store", D,
      "                        cur_item[cut_dimension] = \\\n"
      "                            item_size_in_dim - cut_position\n"
      "                        current_area -= cut_position * "
      "item_size_in_other_dim\n",
      "                        current_area = current_area - ("
      "item_size_in_other_dim * cut_position)\n"
      "                        cur_item[cut_dimension] = \\\n"
      "                            item_size_in_dim - cut_position\n",
      "silent"),
    V("silent-min-area-rewrite", D,
      "min_area: Final[int] = current_area - bin_area + 1",
      "min_area: Final[int] = ((n_bins - 1) * bin_area) + 1", "silent"),
    V("silent-clamp-order", G + "hardness.py",
      "return max(0.0, min(1.0, result / runs))",
      "return min(1.0, max(0.0, result / runs))", "silent"),
]

VARIANTS += [
    V("phase1-piece-may-be-empty", D,
      "                    if 0 < cut_position < item_size_in_dim:  # Sanity",
      "                    if 0 <= cut_position < item_size_in_dim:  # Sanity",
      "fire", "D17.5"),
    V("phase2-shrinks-to-zero", D,
      "                    if 0 < cut_position < item_size_in_dim:\n"
      "                        # We cut away",
      "                    if 0 < cut_position <= item_size_in_dim:\n"
      "                        # We cut away", "fire", "D17.5"),
    V("cut-dimension-leaves-01", D,
      "                    cut_dimension = 1 - cut_dimension\n"
      "                    step += 1",
      "                    cut_dimension = 1 + cut_dimension\n"
      "                    step += 1", "fire", "D17.8"),
    V("search-direction-two", D,
      "            sel_dir: int = -1 if selector < 0.0 else 1",
      "            sel_dir: int = -1 if selector < 0.0 else 2", "fire",
      "D17.8"),
    V("modulus-may-be-zero", D,
      "                if cut_modulus > 0:  # Otherwise, we cannot cut the "
      "item.", "                if cut_modulus >= 0:  # Otherwise", "fire",
      "D17.8"),
    V("bounded-search-never-ends", D,
      "                    step += 1  # If we tried everything",
      "                    pass  # If we tried everything", "fire", "D17.8"),
    V("merge-multiplicity-off", D,
      "            cur_item.append(hi - lo)  # We now have",
      "            cur_item.append(hi - lo + 1)  # We now have", "fire",
      "D17.7"),
    V("merge-duplicates-kept", D,
      "                del items[hi]\n", "", "fire", "D17.7"),
    V("result-not-delivered-when-empty", D,
      "            y.append(res)  # add the instance to it.",
      "            pass", "fire", "D17.7"),
    V("instance-arguments-swapped", D,
      "            self.space.inst_name, bin_width, bin_height, items)",
      "            self.space.inst_name, bin_width, items, bin_height)",
      "fire", "D17.2"),
    V("second-piece-never-appended", D,
      "                        items.append(cur_item)\n", "", "fire",
      "D17.1"),
    V("silent-selection-formula-simplified", D,
      "            sel_i: int = ((int(cur_n_items * selector) % cur_n_items)\n"
      "                          + cur_n_items) % cur_n_items",
      "            sel_i: int = int(cur_n_items * selector) % cur_n_items",
      "silent", "", "Python's % already yields 0..n-1"),
    V("silent-phase2-stops-after-one-round", D,
      "            while step < 2:  # This time", "            while step < 1:"
      "  # This time", "silent", "", "fewer attempts only leave more slack"),
]

ER = G + "errors.py"
VARIANTS += [
    V("similarity-min-width-vs-max-goal", ER,
      "        errors += abs(actual_min_width - goal_min_width)",
      "        errors += abs(actual_min_width - goal_max_width)", "fire",
      "D17.9", "non-zero on the template whenever the widths differ"),
    V("similarity-width-stat-from-height-column", ER,
      "            actual_min_width = min(actual_min_width, width)",
      "            actual_min_width = min(actual_min_width, height)", "fire",
      "D17.9"),
    V("similarity-min-fold-starts-at-zero", ER,
      "        actual_min_width: int = space.bin_width",
      "        actual_min_width: int = 0", "fire", "D17.9"),
    V("similarity-area-without-multiplicity", ER,
      "            total_area += n * width * height",
      "            total_area += width * height", "fire", "D17.9"),
    V("silent-similarity-penalty-sign", ER,
      "                errors += n * (goal_min_width - width)",
      "                errors += n * abs(goal_min_width - width)", "silent",
      "", "the same amount under its guard"),
]

VARIANTS += [
    V("executors-consumed-by-check",
      "moptipyapps/binpacking2d/instgen/hardness.py",
      "        #: the executors\n",
      "        for executor in executors:\n"
      "            if not callable(executor):\n"
      "                raise ValueError(\"executor\")\n"
      "        #: the executors\n", "fire", "D17.11",
      "seed C17-executors-iterable-consumed-by-check"),
]

VARIANTS += [
    V("shuffle-generator-kept-in-decoder",
      "moptipyapps/binpacking2d/instgen/inst_decoding.py",
      "        default_rng(int.from_bytes(x.tobytes())).shuffle(items)",
      "        self.space.rng.shuffle(items)", "fire", "D17.12",
      "seed C17-shuffle-generator-kept-in-decoder (generator on a field)"),
    V("silent-shuffle-generator-local",
      "moptipyapps/binpacking2d/instgen/inst_decoding.py",
      "        default_rng(int.from_bytes(x.tobytes())).shuffle(items)",
      "        rng = default_rng(int.from_bytes(x.tobytes()))\n"
      "        rng.shuffle(items)", "silent", "", "local generator"),
]
