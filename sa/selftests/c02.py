"""Self-test variants for C02."""
from sa.selftests import V

O = "moptipyapps/binpacking2d/objectives/"
PR = "moptipyapps/binpacking2d/packing_result.py"

VARIANTS = [
    V("last-empty-bins-not-minus-1", O + "bin_count_and_last_empty.py",
      "return (n_items * (current_bin - 1)) + current_size",
      "return (n_items * current_bin) + current_size", "fire", "D2"),
    V("last-empty-tobincount-wrong-field", O + "bin_count_and_last_empty.py",
      "return ceil_div(z, self._instance.n_items)",
      "return ceil_div(z, self._instance.n_different_items)", "fire",
      "D2.1"),
    V("last-empty-upper-bound", O + "bin_count_and_last_empty.py",
      "return self._instance.n_items * self._instance.n_items",
      "return self._instance.n_items * self._instance.n_different_items",
      "fire", "D2.1"),
    V("last-empty-counts-all", O + "bin_count_and_last_empty.py",
      "        elif bin_idx == current_bin:  # did item go into the current "
      "last bin?\n            current_size = current_size + 1",
      "        else:\n            current_size = current_size + 1",
      "fire", "D2.2"),
    V("last-empty-no-reset", O + "bin_count_and_last_empty.py",
      "            current_size = 1  # then there is 1 object in it for now",
      "            current_size = current_size + 1  # then there is 1",
      "fire", "D2.2"),
    V("last-small-square-bin", O + "bin_count_and_last_small.py",
      "self._bin_size: Final[int] = instance.bin_width * instance.bin_height",
      "self._bin_size: Final[int] = instance.bin_height * "
      "instance.bin_height", "fire", "D2.1"),
    V("last-small-area-wrong", O + "bin_count_and_last_small.py",
      "            * int(y[i, IDX_TOP_Y] - y[i, IDX_BOTTOM_Y])",
      "            * int(y[i, IDX_TOP_Y] - y[i, IDX_LEFT_X])", "fire",
      "D2.2"),
    V("last-small-ub-scale", O + "bin_count_and_last_small.py",
      "        return self._instance.n_items * self._instance.bin_height \\\n"
      "            * self._instance.bin_width",
      "        return self._instance.n_items * self._instance.bin_height \\\n"
      "            * self._instance.bin_height", "fire", "D2.1"),
    V("last-small-lb-scale", O + "bin_count_and_last_small.py",
      "        return int(((self._instance.lower_bound_bins - 1)\n"
      "                    * self._instance.bin_height\n",
      "        return int(((self._instance.lower_bound_bins - 1)\n"
      "                    * self._instance.bin_width\n", "fire", "D2.1"),
    V("last-small-lb-narrow", O + "bin_count_and_last_small.py",
      "area: int = int(row[0]) * int(row[1])",
      "area: int = int(row[0] * row[1])", "fire", "D2.5"),
    V("empty-no-fill", O + "bin_count_and_empty.py",
      "    temp.fill(0)  # empty all temporary values\n", "", "fire", "D2.2"),
    V("empty-min-range", O + "bin_count_and_empty.py",
      "temp[0:total_bins + 1].min()", "temp[0:total_bins].min()", "fire",
      "D2.2"),
    V("empty-scratch-size", O + "bin_count_and_empty.py",
      "            instance.n_items, instance.dtype)",
      "            instance.n_different_items, instance.dtype)", "fire",
      "D2.3"),
    V("small-key-not-minus-1", O + "bin_count_and_small.py",
      "bin_idx: int = int(y[i, IDX_BIN]) - 1  # get the bin index of the "
      "item\n        temp[bin_idx] += ((y[i, IDX_RIGHT_X]",
      "bin_idx: int = int(y[i, IDX_BIN]) - 1  # get the bin index of the "
      "item\n        temp[bin_idx + 1] += ((y[i, IDX_RIGHT_X]", "fire",
      "D2"),
    V("small-max-not-tracked", O + "bin_count_and_small.py",
      "        total_bins = max(total_bins, bin_idx)\n    return (bin_area",
      "        total_bins = bin_idx\n    return (bin_area", "fire", "D2"),
    V("skyline-scale-wrong", O + "bin_count_and_last_skyline.py",
      "bin_size: Final[int] = bin_height * bin_width",
      "bin_size: Final[int] = bin_height * bin_height", "fire", "D2.1"),
    V("lowest-skyline-bins", O + "bin_count_and_lowest_skyline.py",
      "return ((bins - 1) * bin_size) + min_area_under_skyline",
      "return (bins * bin_size) + min_area_under_skyline", "fire", "D2"),
    V("guard-removed", PR,
      "        elif bin_count != bc:\n            raise ValueError(",
      "        elif bin_count > bc + 1000000:\n            raise ValueError(",
      "fire", "D2.4"),
    # silent
    V("silent-last-empty-rewrite", O + "bin_count_and_last_empty.py",
      "        if bin_idx > current_bin:  # it's a new biggest bin = new last"
      " bin?\n            current_size = 1  # then there is 1 object in it "
      "for now\n            current_bin = bin_idx  # and we remember it\n"
      "        elif bin_idx == current_bin:  # did item go into the current "
      "last bin?\n            current_size = current_size + 1  # then "
      "increase size\n",
      "        if bin_idx < current_bin:\n            continue\n"
      "        if current_bin == bin_idx:\n            current_size += 1\n"
      "        else:\n            current_bin = bin_idx\n"
      "            current_size = 1\n", "silent"),
    V("silent-return-commuted", O + "bin_count_and_last_small.py",
      "return (bin_area * (current_bin - 1)) + current_area",
      "return current_area + (current_bin * bin_area) - bin_area", "silent"),
    V("silent-ub-commuted", O + "bin_count_and_last_small.py",
      "        return self._instance.n_items * self._instance.bin_height \\\n"
      "            * self._instance.bin_width",
      "        return self._instance.bin_width * self._instance.n_items \\\n"
      "            * self._instance.bin_height", "silent"),
    V("silent-max-if", O + "bin_count_and_small.py",
      "        total_bins = max(total_bins, bin_idx)\n    return (bin_area",
      "        if bin_idx > total_bins:\n            total_bins = bin_idx\n"
      "    return (bin_area", "silent"),
]

SK = O + "bin_count_and_last_skyline.py"
LS = O + "bin_count_and_lowest_skyline.py"
VARIANTS += [
    V("skyline-not-the-highest-cover", SK,
      "            if left <= cur_left < right and top > use_top:",
      "            if left <= cur_left < right and top < use_top:", "fire",
      "D2.6"),
    V("skyline-cover-includes-right-edge", SK,
      "            if left <= cur_left < right and top > use_top:",
      "            if left <= cur_left <= right and top > use_top:", "fire",
      "D2.6", "an item ending exactly at the position would count"),
    V("skyline-segment-height-of-wrong-width", SK,
      "        area_under_skyline += (use_right - cur_left) * use_top",
      "        area_under_skyline += (use_right + cur_left) * use_top",
      "fire", "D2.6"),
    V("skyline-other-bins-counted", SK,
      "            if y[i, IDX_BIN] != use_bin:\n                continue\n",
      "", "fire", "D2.6"),
    V("skyline-next-start-ignored", LS,
      "            use_right = min(use_right, next_left)\n", "", "fire",
      "D2.6"),
    V("skyline-width-height-swapped", SK,
      "            x, self.__bin_width, self.__bin_height)",
      "            x, self.__bin_height, self.__bin_width)", "fire", "D2.1"),
    V("silent-skyline-ties-take-the-later-item", SK,
      "            if cur_left < left < next_left:",
      "            if cur_left < left <= next_left:", "silent", "",
      "re-assigning the same value"),
]

VARIANTS += [
    V("lowest-skyline-area-not-reset", O + "bin_count_and_lowest_skyline.py",
      "    min_area_under_skyline: int = bin_size\n\n"
      "    for use_bin in range(1, bins + 1):\n"
      "        cur_left: int = 0\n"
      "        area_under_skyline: int = 0\n",
      "    min_area_under_skyline: int = bin_size\n"
      "    area_under_skyline: int = 0\n\n"
      "    for use_bin in range(1, bins + 1):\n"
      "        cur_left: int = 0\n", "fire", "D2.6",
      "seed C02-lowest-skyline-area-not-reset-per-bin: the accumulator "
      "hoisted out of the bin loop"),
    V("lowest-skyline-position-not-reset",
      O + "bin_count_and_lowest_skyline.py",
      "    min_area_under_skyline: int = bin_size\n\n"
      "    for use_bin in range(1, bins + 1):\n"
      "        cur_left: int = 0\n",
      "    min_area_under_skyline: int = bin_size\n"
      "    cur_left: int = 0\n\n"
      "    for use_bin in range(1, bins + 1):\n", "fire", "D2.6",
      "the sweep position hoisted out of the bin loop: only the first bin "
      "is swept"),
]


LS = "moptipyapps/binpacking2d/objectives/bin_count_and_last_small.py"
VARIANTS += [
    V("upper-bound-tightened-for-skylines-too", LS,
      "        return self._instance.n_items * self._instance.bin_height \\\n"
      "            * self._instance.bin_width",
      "        return ((self._instance.n_items - 1) * self._bin_size) \\\n"
      "            + min(self._bin_size, self._instance.total_item_area)",
      "fire", "D2.1"),
    V("upper-bound-one-bin-short", LS,
      "        return self._instance.n_items * self._instance.bin_height \\\n"
      "            * self._instance.bin_width",
      "        return (self._instance.n_items - 1) * "
      "self._instance.bin_height \\\n"
      "            * self._instance.bin_width", "fire", "D2.1"),
    V("upper-bound-height-squared", LS,
      "        return self._instance.n_items * self._instance.bin_height \\\n"
      "            * self._instance.bin_width",
      "        return self._instance.n_items * self._instance.bin_height \\\n"
      "            * self._instance.bin_height", "fire", "D2.1"),
    V("silent-upper-bound-looser", LS,
      "        return self._instance.n_items * self._instance.bin_height \\\n"
      "            * self._instance.bin_width",
      "        return (self._instance.n_items + 1) * "
      "self._instance.bin_height \\\n"
      "            * self._instance.bin_width", "silent"),
]

LE = "moptipyapps/binpacking2d/objectives/bin_count_and_last_empty.py"
VARIANTS += [
    V("last-empty-lower-bound-one-bin-too-many", LE,
      "((self._instance.lower_bound_bins - 1)",
      "((self._instance.lower_bound_bins - 0)", "fire", "D2.1"),
    V("last-small-lower-bound-full-bin-for-one-bin", LS,
      "            return self._instance.total_item_area\n",
      "            return self._bin_size\n", "fire", "D2.1"),
    V("silent-last-empty-lower-bound-weaker", LE,
      "((self._instance.lower_bound_bins - 1)",
      "((self._instance.lower_bound_bins - 2)", "silent"),
]

VARIANTS += [
    V("small-scratch-32-bit",
      "moptipyapps/binpacking2d/objectives/bin_count_and_small.py",
      "np.empty(instance.n_items, int)",
      "np.empty(instance.n_items, np.int32)", "fire", "D2.3",
      "seed C02-small-scratch-32-bit"),
    V("silent-small-scratch-int64",
      "moptipyapps/binpacking2d/objectives/bin_count_and_small.py",
      "np.empty(instance.n_items, int)",
      "np.empty(instance.n_items, dtype=np.int64)", "silent", "",
      "explicit 64-bit type"),
]

VARIANTS += [
    V("bin-count-from-stored-attribute",
      "moptipyapps/binpacking2d/objectives/bin_count.py",
      "        return int(x[:, IDX_BIN].max())",
      "        return int(x.n_bins)", "fire", "D2.1",
      "seed C02-bin-count-from-stored-attribute"),
]
