"""Self-test variants for C19."""
from sa.selftests import V

R = "moptipyapps/binpacking2d/packing_result.py"
S = "moptipyapps/binpacking2d/packing_statistics.py"
I = "moptipyapps/binpacking2d/instance.py"

VARIANTS = [
    V("result-row-swapped-dims", R,
      "        yield repr(data.bin_height)\n        yield repr(data.bin_width)",
      "        yield repr(data.bin_width)\n        yield repr(data.bin_height)",
      "fire", "D19.1"),
    V("result-title-order", R,
      "        yield csv_scope(p, KEY_N_ITEMS)\n"
      "        yield csv_scope(p, KEY_N_DIFFERENT_ITEMS)",
      "        yield csv_scope(p, KEY_N_DIFFERENT_ITEMS)\n"
      "        yield csv_scope(p, KEY_N_ITEMS)", "fire", "D19.1"),
    V("result-bounds-swapped-in-row", R,
      "                ox = csv_scope(ob, _OBJECTIVE_LOWER)\n"
      "                yield (num_to_str(data.objective_bounds[ox])",
      "                ox = csv_scope(ob, _OBJECTIVE_UPPER)\n"
      "                yield (num_to_str(data.objective_bounds[ox])",
      "fire", "D19.1"),
    V("result-reader-swapped-args", R,
      "            int(data[self.__idx_bin_width]),\n"
      "            int(data[self.__idx_bin_height]),",
      "            int(data[self.__idx_bin_height]),\n"
      "            int(data[self.__idx_bin_width]),", "fire", "D19.1"),
    V("result-reader-wrong-key", R,
      "self.__idx_n_items: Final[int] = csv_column(columns, KEY_N_ITEMS)",
      "self.__idx_n_items: Final[int] = csv_column(\n"
      "            columns, KEY_N_DIFFERENT_ITEMS)", "fire", "D19.1"),
    V("stats-row-drops-column", S,
      "        yield repr(data.n_items)\n", "", "fire", "D19.1"),
    V("stats-title-bound-order", S,
      "                yield csv_scope(p, self.__objective_lb_names[i])\n"
      "                yield from o.get_column_titles()\n"
      "                yield csv_scope(p, self.__objective_ub_names[i])",
      "                yield csv_scope(p, self.__objective_ub_names[i])\n"
      "                yield from o.get_column_titles()\n"
      "                yield csv_scope(p, self.__objective_lb_names[i])",
      "fire", "D19.1"),
    V("compact-writer-swaps-bin-dims", I,
      "str(self.bin_width), str(self.bin_height)]",
      "str(self.bin_height), str(self.bin_width)]", "fire", "D19.2"),
    V("compact-writer-height-first", I,
      "                f\"{width}{INTERNAL_SEP}{height}\" if repetitions == 1"
      " else", "                f\"{height}{INTERNAL_SEP}{width}\" if "
      "repetitions == 1 else", "fire", "D19.2"),
    V("compact-reader-offset", I,
      "        for i in range(4, n_different_items + 4):",
      "        for i in range(3, n_different_items + 3):", "fire", "D19.2"),
    V("compact-reader-other-separator", I,
      "            s: list[str] = text[i].split(INTERNAL_SEP)",
      "            s: list[str] = text[i].split(\":\")", "fire", "D19.2"),
    V("gameplan-reader-no-validate", "moptipyapps/ttp/game_plan_space.py",
      "        self.validate(x)\n        return x",
      "        return x", "fire", "D19.3"),
    V("ordering-writer-order", "moptipyapps/order1d/space.py",
      "        text.extend(super().to_str(x).split(\"\\n\"))\n"
      "        text.append(\"\")  # noqa: PIE799",
      "        text.append(\"\")  # noqa: PIE799\n"
      "        text.extend(super().to_str(x).split(\"\\n\"))", "fire",
      "D19.3"),
    # silent
    V("silent-row-local-var", R,
      "        yield repr(data.bin_height)\n",
      "        bh = data.bin_height\n        yield repr(bh)\n", "silent"),
]

_SEL_NEW = (
    "                columns, None,\n"
    "                skip_orig_key=lambda s: not str.startswith(\n"
    "                    s, LOWER_BOUNDS_BIN_COUNT))\n")
_SEL_OLD = "                columns, LOWER_BOUNDS_BIN_COUNT)\n"
VARIANTS += [
    V("result-bin-bound-keys-stripped", R, _SEL_NEW, _SEL_OLD, "fire",
      "D19.4", "the defect repaired by 3dc14eb, re-introduced"),
    V("stats-bin-bound-keys-stripped", S, _SEL_NEW, _SEL_OLD, "fire",
      "D19.4", "the defect repaired by 3dc14eb, re-introduced"),
    V("result-bin-bound-filter-inverted", R,
      "skip_orig_key=lambda s: not str.startswith(\n"
      "                    s, LOWER_BOUNDS_BIN_COUNT))",
      "skip_orig_key=lambda s: str.startswith(\n"
      "                    s, LOWER_BOUNDS_BIN_COUNT))", "fire", "D19.4"),
    V("silent-bin-bound-filter-method-form", R,
      "skip_orig_key=lambda s: not str.startswith(\n"
      "                    s, LOWER_BOUNDS_BIN_COUNT))",
      "skip_orig_key=lambda s: not s.startswith(\n"
      "                    LOWER_BOUNDS_BIN_COUNT))", "silent", ""),
    V("compact-times-limit-max-dim", I,
      "                check_to_int_range(\n"
      "                    s[IDX_REPETITION], \"times\", 1, 100_000_000)]",
      "                check_to_int_range(s[IDX_REPETITION], \"times\", 1, "
      "max_dim)]", "fire", "D19.4", "seed C19-repetition-limit-max-dim"),
    V("compact-bin-width-limit-lower", I,
      "            text[2], \"bin_width\", 1, 1_000_000_000_000)",
      "            text[2], \"bin_width\", 1, 1_000_000_000)", "fire",
      "D19.4"),
    V("compact-width-from-2", I,
      "                check_to_int_range(s[IDX_WIDTH], \"width\", 1, "
      "max_dim),",
      "                check_to_int_range(s[IDX_WIDTH], \"width\", 2, "
      "max_dim),", "fire", "D19.4"),
    V("silent-compact-times-wider", I,
      "                    s[IDX_REPETITION], \"times\", 1, 100_000_000)]",
      "                    s[IDX_REPETITION], \"times\", 1, 200_000_000)]",
      "silent", "", "a wider reader range still covers the constructor"),
]

VARIANTS += [
    V("compact-writer-drops-multiplicity", I,
      "                f\"{width}{INTERNAL_SEP}{height}\" if repetitions == "
      "1 else",
      "                f\"{width}{INTERNAL_SEP}{height}\" if repetitions != "
      "1 else", "fire", "D19.2", "found by the mutation survey"),
    V("compact-dimensions-swapped-at-constructor", I,
      "        return Instance(name, bin_width, bin_height, items)",
      "        return Instance(name, bin_height, bin_width, items)", "fire",
      "D19.2"),
    V("compact-rows-not-collected", I, "            items.append(row)\n", "",
      "fire", "D19.2"),
    V("compact-field-name-converted", I,
      "            text[2], \"bin_width\", 1, 1_000_000_000_000)",
      "            \"bin_width\", text[2], 1, 1_000_000_000_000)", "fire",
      "D19.4"),
    V("silent-compact-writer-other-polarity", I,
      "                f\"{width}{INTERNAL_SEP}{height}\" if repetitions == "
      "1 else\n                f\"{width}{INTERNAL_SEP}{height}"
      "{INTERNAL_SEP}{repetitions}\")",
      "                f\"{width}{INTERNAL_SEP}{height}{INTERNAL_SEP}"
      "{repetitions}\" if repetitions != 1 else\n                f\"{width}"
      "{INTERNAL_SEP}{height}\")", "silent", ""),
]

GP = "moptipyapps/ttp/game_plan.py"
GS = "moptipyapps/ttp/game_plan_space.py"
OS = "moptipyapps/order1d/space.py"
VARIANTS += [
    V("game-plan-reader-never-cuts", GS, "        if lb > 0:",
      "        if lb < 0:", "fire", "D19.3",
      "the human-readable part would be parsed as data"),
    V("ordering-reader-never-cuts", OS, "        if idx > 0:",
      "        if idx < 0:", "fire", "D19.3"),
    V("game-plan-first-line-without-values", GP,
      "                sio.write(str(k))\n", "", "fire", "D19.3"),
    V("game-plan-first-line-without-separators", GP,
      "            for k in self.flatten():\n                sio.write(sep)\n",
      "            for k in self.flatten():\n", "fire", "D19.3"),
    V("game-plan-reader-copies-backwards", GS,
      "        np.copyto(x, np.fromstring(text, dtype=x.dtype, sep="
      "CSV_SEPARATOR)\n                  .reshape(x.shape))",
      "        np.copyto(np.fromstring(text, dtype=x.dtype, sep="
      "CSV_SEPARATOR)\n                  .reshape(x.shape), x)", "fire",
      "D19.3"),
    V("silent-game-plan-reader-ge", GS, "        if lb > 0:",
      "        if lb >= 0:", "silent", ""),
]

VARIANTS += [
    V("result-reader-rejects-even-bounds", R,
      "        if (n_bounds & 1) != 0:", "        if (n_bounds & 1) == 0:",
      "fire", "D19.1"),
    V("result-reader-bound-count-check-inverted", R,
      "        if (2 * n_objectives) != n_bounds:",
      "        if (2 * n_objectives) == n_bounds:", "fire", "D19.1"),
    V("result-reader-drops-all-optional-cells", R,
      "            {n: int(data[i]) for n, i in self.__bin_bounds\n"
      "             if str.__len__(data[i]) > 0})",
      "            {n: int(data[i]) for n, i in self.__bin_bounds\n"
      "             if str.__len__(data[i]) < 0})", "fire", "D19.1"),
    V("stats-reader-objective-name-second-part", S,
      "                  for ss in sorted({s[0] for s in (str.split(",
      "                  for ss in sorted({s[1] for s in (str.split(",
      "fire", "D19.1"),
    V("result-reader-column-lookup-swapped", R,
      "csv_column(columns, KEY_BIN_WIDTH)", "csv_column(KEY_BIN_WIDTH, "
      "columns)", "fire", "D19.1"),
    V("silent-result-reader-strict-positive", R,
      "        if n_bounds <= 0:", "        if n_bounds < 1:", "silent", ""),
]

VARIANTS += [
    V("result-zero-bound-dropped", R,
      "                yield (num_to_str(data.objective_bounds[ox])\n"
      "                       if ox in data.objective_bounds else \"\")\n"
      "                yield (num_to_str(data.objectives[ob])",
      "                lb = data.objective_bounds.get(ox)\n"
      "                yield num_to_str(lb) if lb else \"\"\n"
      "                yield (num_to_str(data.objectives[ob])",
      "fire", "D19.1", "seed C19-csv-zero-written-as-empty: truthiness "
      "instead of presence drops a bound of 0"),
    V("silent-result-get-is-not-none", R,
      "                yield (num_to_str(data.objective_bounds[ox])\n"
      "                       if ox in data.objective_bounds else \"\")\n"
      "                yield (num_to_str(data.objectives[ob])",
      "                lb = data.objective_bounds.get(ox)\n"
      "                yield num_to_str(lb) if lb is not None else \"\"\n"
      "                yield (num_to_str(data.objectives[ob])",
      "silent"),
    V("silent-result-if-statement-presence", R,
      "                yield (num_to_str(data.objectives[ob])\n"
      "                       if ob in data.objectives else \"\")",
      "                if ob not in data.objectives:\n"
      "                    yield \"\"\n"
      "                else:\n"
      "                    yield num_to_str(data.objectives[ob])",
      "silent"),
]

VARIANTS += [
    V("statistics-bounds-parsed-as-float",
      "moptipyapps/binpacking2d/packing_statistics.py",
      "{o: str_to_num(data[v]) for o, v in self.__objective_bounds}",
      "{o: float(data[v]) for o, v in self.__objective_bounds}", "fire",
      "D19.1"),
    V("result-objectives-parsed-as-int",
      "moptipyapps/binpacking2d/packing_result.py",
      "            {n: str_to_num(data[i]) for n, i in self.__objectives\n",
      "            {n: int(data[i]) for n, i in self.__objectives\n", "fire",
      "D19.1"),
    V("silent-statistics-bin-bounds-str-to-int",
      "moptipyapps/binpacking2d/packing_statistics.py",
      "{o: int(data[v]) for o, v in self.__bin_bounds}",
      "{o: int(data[v], 10) for o, v in self.__bin_bounds}", "silent"),
]

VARIANTS += [
    V("stats-row-bounds-in-record-order", S,
      "            for bb in self.__bin_bounds:\n"
      "                yield (repr(data.bin_bounds[bb])\n"
      "                       if bb in data.bin_bounds else \"\")",
      "            for bb in data.bin_bounds:\n"
      "                yield repr(data.bin_bounds[bb])", "fire", "D19.1",
      "seed C19-stats-row-bounds-in-record-order"),
]
