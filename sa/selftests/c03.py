"""Self-test variants for C03."""
from sa.selftests import V

I = "moptipyapps/binpacking2d/instance.py"
R = "moptipyapps/binpacking2d/packing_result.py"

VARIANTS = [
    V("ceil-always-plus-one", I,
      "        if (lower_bound_geo * bin_area) < item_area:\n"
      "            lower_bound_geo += 1",
      "        lower_bound_geo += 1", "fire", "D3.1"),
    V("ceil-le", I,
      "        if (lower_bound_geo * bin_area) < item_area:",
      "        if (lower_bound_geo * bin_area) <= item_area:", "fire",
      "D3.1"),
    V("floor-only", I,
      "        if (lower_bound_geo * bin_area) < item_area:\n"
      "            lower_bound_geo += 1\n", "", "fire", "D3.1"),
    V("area-ignores-repetitions", I,
      "            item_area += (width * height * repetitions)",
      "            item_area += (width * height)", "fire", "D3.1"),
    V("area-skips-unit-items", I,
      "            item_area += (width * height * repetitions)",
      "            if repetitions > 1:\n"
      "                item_area += (width * height * repetitions)", "fire",
      "D3.1"),
    V("bound-is-min", I,
      "obj.lower_bound_bins = max(lower_bound_damv, lower_bound_geo)",
      "obj.lower_bound_bins = min(lower_bound_damv, lower_bound_geo)",
      "fire", "D3.1"),
    V("bin-area-square", I, "        bin_area: int = bin_height * bin_width",
      "        bin_area: int = bin_height * bin_height", "fire", "D3.1"),
    V("reported-geo-rounds-up-always", R,
      "    return (res + 1) if ((res * bin_size) != area) else res",
      "    return res + 1", "fire", "D3.1"),
    # silent
    V("silent-ceil-neg-floordiv", I,
      "        lower_bound_geo: int = item_area // bin_area\n"
      "        if (lower_bound_geo * bin_area) < item_area:\n"
      "            lower_bound_geo += 1\n",
      "        lower_bound_geo: int = -((-item_area) // bin_area)\n",
      "silent"),
    V("silent-ceil-mod-form", I,
      "        if (lower_bound_geo * bin_area) < item_area:",
      "        if (item_area % bin_area) != 0:", "silent"),
    V("silent-ceil-add-form", I,
      "        lower_bound_geo: int = item_area // bin_area\n"
      "        if (lower_bound_geo * bin_area) < item_area:\n"
      "            lower_bound_geo += 1\n",
      "        lower_bound_geo: int = (item_area + bin_area - 1) // "
      "bin_area\n", "silent"),
]

VARIANTS += [
    V("damv-b2-ceil-half-height", I,
      "    div: int = bin_width // ((bin_height // 2) + 1)",
      "    div: int = bin_width // (((bin_height + 1) // 2) + 1)", "fire",
      "D3.2", "seed C03-damv-b2-ceil-half-height: for odd H too few squares "
      "per row, the bound exceeds the optimum (9x5 bin, three 3x3 items)"),
    V("damv-s1-boundary", I, "        if l_i > width_m_q:",
      "        if l_i >= width_m_q:", "fire", "D3.2"),
    V("damv-s23-wrong-threshold", I,
      "s23: Final[list[int]] = [j for j in (s2 + s3) if j_js[j] > "
      "height_m_q]",
      "s23: Final[list[int]] = [j for j in (s2 + s3) if j_js[j] > "
      "width_m_q]", "fire", "D3.2"),
    V("damv-pairing-strict", I, "            if needs <= residual:",
      "            if needs < residual:", "fire", "D3.2"),
    V("damv-gives-up-after-first-pair", I,
      "                not_found = False\n", "                not_found = "
      "True\n", "fire", "D3.2"),
    V("damv-s2-not-reversed", I, "    s2.reverse()  # =", "    pass  # =",
      "fire", "D3.2"),
    V("damv-area-term-sign", I,
      "        - ((bin_size * l_tilde) - sum(j_js[i] * (",
      "        - ((bin_size * l_tilde) + sum(j_js[i] * (", "fire", "D3.2"),
    V("damv-b1-over-rounded", I,
      "    if (b1 * bin_width) < sum_s3_l:", "    if (b1 * bin_width) <= "
      "sum_s3_l:", "fire", "D3.2"),
    V("damv-orientation-args-swapped", I,
      "__lb_q(bin_width, bin_height, q, j_sq)",
      "__lb_q(bin_height, bin_width, q, j_sq)", "fire", "D3.2"),
    V("damv-q-range-too-far", I, "for q in range((bin_height // 2) + 1))",
      "for q in range(bin_height + 1))", "fire", "D3.2"),
    V("cutsq-buffer-not-cleared", I, "        s.clear()\n", "", "fire",
      "D3.2"),
    V("cutsq-remainder-wrong", I, "            w, h = h, w - (k * h)",
      "            w, h = h, w - k", "fire", "D3.2"),
    V("silent-damv-denominator-nonnegative", I, "    if denom > 0:",
      "    if denom >= 0:", "silent", "", "adds ceil(0) = 0"),
    V("silent-damv-ceil-idiom", I,
      "    b1 = sum_s3_l // bin_width\n"
      "    if (b1 * bin_width) < sum_s3_l:\n        b1 = b1 + 1\n",
      "    b1 = -((-sum_s3_l) // bin_width)\n", "silent", "",
      "another exact ceiling"),
    V("silent-damv-no-early-exit", I,
      "        else:\n            break\n\n    # compute set S23",
      "        else:\n            continue\n\n    # compute set S23",
      "silent", "", "squares are sorted; scanning on changes nothing"),
    V("silent-damv-max-args", I, "len(s2) + max(b1, b2)",
      "max(b2, b1) + len(s2)", "silent", ""),
    V("silent-damv-orientation-ge", I, "    if bin_height > bin_width:",
      "    if bin_height >= bin_width:", "silent", ""),
]

VARIANTS += [
    V("constructor-rows-not-copied", I,
      "            obj[i, :] = matrix[i]\n", "            pass\n", "fire",
      "D3.3"),
    V("constructor-damv-dimensions-swapped", I,
      "            bin_width, bin_height, obj), \"lower_bound_bins_damv\",",
      "            bin_height, bin_width, obj), \"lower_bound_bins_damv\",",
      "fire", "D3.3"),
    V("constructor-width-stored-as-height", I,
      "        obj.bin_height = bin_height", "        obj.bin_height = "
      "bin_width", "fire", "D3.3"),
    V("constructor-items-not-counted", I,
      "            n_items += repetitions\n", "", "fire", "D3.3"),
]

from sa.selftests import Variant  # noqa: E402

VARIANTS += [
    Variant("damv-q-range-before-orientation", I, [
        ("    # ensure horizontal orientation (width >= height)\n"
         "    if bin_height > bin_width:",
         "    q_max: Final[int] = bin_height // 2\n"
         "    if bin_height > bin_width:"),
        ("                          for q in range((bin_height // 2) + 1))",
         "                          for q in range(q_max + 1))")],
        "fire", "D3.2"),
]

VARIANTS += [
    V("s3-copy-reversed", "moptipyapps/binpacking2d/instance.py",
      "    s3_minus_s3d: list[int] = s3.copy()",
      "    s3_minus_s3d: list[int] = s3[::-1]", "fire", "D3.2",
      "seed C03-pairing-takes-smallest-s3-first"),
    V("silent-s3-copy-by-slice", "moptipyapps/binpacking2d/instance.py",
      "    s3_minus_s3d: list[int] = s3.copy()",
      "    s3_minus_s3d: list[int] = s3[:]", "silent", "",
      "order-preserving copy"),
]
