"""Self-test variants for C03."""
from sa.selftests import V

I = "moptipyapps/binpacking2d/instance.py"
R = "moptipyapps/binpacking2d/packing_result.py"

VARIANTS = [
    V("ceil-always-plus-one", I,
      "        if (lower_bound_geo * bin_area) < item_area:\n"
      "            lower_bound_geo += 1",
      "        lower_bound_geo += 1", "fire", "D3.1"),
    V("ceil-le", I,
      "        if (lower_bound_geo * bin_area) < item_area:",
      "        if (lower_bound_geo * bin_area) <= item_area:", "fire",
      "D3.1"),
    V("floor-only", I,
      "        if (lower_bound_geo * bin_area) < item_area:\n"
      "            lower_bound_geo += 1\n", "", "fire", "D3.1"),
    V("area-ignores-repetitions", I,
      "            item_area += (width * height * repetitions)",
      "            item_area += (width * height)", "fire", "D3.1"),
    V("area-skips-unit-items", I,
      "            item_area += (width * height * repetitions)",
      "            if repetitions > 1:\n"
      "                item_area += (width * height * repetitions)", "fire",
      "D3.1"),
    V("bound-is-min", I,
      "obj.lower_bound_bins = max(lower_bound_damv, lower_bound_geo)",
      "obj.lower_bound_bins = min(lower_bound_damv, lower_bound_geo)",
      "fire", "D3.1"),
    V("bin-area-square", I, "        bin_area: int = bin_height * bin_width",
      "        bin_area: int = bin_height * bin_height", "fire", "D3.1"),
    V("reported-geo-rounds-up-always", R,
      "    return (res + 1) if ((res * bin_size) != area) else res",
      "    return res + 1", "fire", "D3.1"),
    # silent
    V("silent-ceil-neg-floordiv", I,
      "        lower_bound_geo: int = item_area // bin_area\n"
      "        if (lower_bound_geo * bin_area) < item_area:\n"
      "            lower_bound_geo += 1\n",
      "        lower_bound_geo: int = -((-item_area) // bin_area)\n",
      "silent"),
    V("silent-ceil-mod-form", I,
      "        if (lower_bound_geo * bin_area) < item_area:",
      "        if (item_area % bin_area) != 0:", "silent"),
    V("silent-ceil-add-form", I,
      "        lower_bound_geo: int = item_area // bin_area\n"
      "        if (lower_bound_geo * bin_area) < item_area:\n"
      "            lower_bound_geo += 1\n",
      "        lower_bound_geo: int = (item_area + bin_area - 1) // "
      "bin_area\n", "silent"),
]
