import sys
from sa.selftests import run_for
rc = 0
for p in sys.argv[1:]:
    rc = max(rc, run_for(p.upper()))
sys.exit(rc)
