"""Self-test variants for C07."""
from sa.selftests import V

E = "moptipyapps/ttp/errors.py"

VARIANTS = [
    V("streak-amount-sign", E,
      "                    if away_streak_len < away_streak_min:\n"
      "                        errors += (away_streak_min - away_streak_len)"
      "\n                    away_streak_len = -1\n                elif",
      "                    if away_streak_len < away_streak_min:\n"
      "                        errors += (away_streak_len - away_streak_min)"
      "\n                    away_streak_len = -1\n                elif",
      "fire", "D7.1"),
    V("separation-unguarded", E,
      "                    elif difference > separation_max:\n"
      "                        errors += (difference - separation_max)",
      "                    else:\n"
      "                        errors += (difference - separation_max)",
      "fire", "D7.1"),
    V("balance-without-abs", E,
      "            errors += abs(ij + ji - games_per_combo)",
      "            errors += ij + ji - games_per_combo", "fire", "D7.1"),
    V("counter-decremented", E,
      "                if y[day, team_2] != team_1_id:\n"
      "                    errors += 1",
      "                if y[day, team_2] != team_1_id:\n"
      "                    errors += 1\n                else:\n"
      "                    errors -= 0", "fire", "D7.1"),
    V("temp1-not-reset", E, "    temp_1.fill(-1)  # last time the teams "
      "played each other\n", "", "fire", "D7.2"),
    V("temp2-reset-late", E,
      "    temp_2.fill(0)\n    for team_1 in range(teams):",
      "    for team_1 in range(teams):\n        if team_1 == 0:\n"
      "            pass", "fire", "D7.2"),
    V("separation-max-ignored", E,
      "                    elif difference > separation_max:\n"
      "                        errors += (difference - separation_max)\n",
      "", "fire", "D7.3"),
    V("home-max-ignored", E,
      "                    if home_streak_len > home_streak_max:\n"
      "                        errors += 1  # too long? add to errors\n",
      "", "fire", "D7.3"),
    V("home-consistency-dropped", E,
      "                if y[day, team_2] != -team_1_id:\n"
      "                    errors += 1\n", "", "fire", "D7.3"),
    # silent
    V("silent-guard-flipped", E,
      "                    if difference < separation_min:\n"
      "                        errors += (separation_min - difference)",
      "                    if separation_min > difference:\n"
      "                        errors += (-difference + separation_min)",
      "silent"),
]
