"""Self-test variants for C07."""
from sa.selftests import V

E = "moptipyapps/ttp/errors.py"

VARIANTS = [
    V("streak-amount-sign", E,
      "                    if away_streak_len < away_streak_min:\n"
      "                        errors += (away_streak_min - away_streak_len)"
      "\n                    away_streak_len = -1\n                elif",
      "                    if away_streak_len < away_streak_min:\n"
      "                        errors += (away_streak_len - away_streak_min)"
      "\n                    away_streak_len = -1\n                elif",
      "fire", "D7.1"),
    V("separation-unguarded", E,
      "                    elif difference > separation_max:\n"
      "                        errors += (difference - separation_max)",
      "                    else:\n"
      "                        errors += (difference - separation_max)",
      "fire", "D7.1"),
    V("balance-without-abs", E,
      "            errors += abs(ij + ji - games_per_combo)",
      "            errors += ij + ji - games_per_combo", "fire", "D7.1"),
    V("counter-decremented", E,
      "                if y[day, team_2] != team_1_id:\n"
      "                    errors += 1",
      "                if y[day, team_2] != team_1_id:\n"
      "                    errors += 1\n                else:\n"
      "                    errors -= 0", "fire", "D7.1"),
    V("temp1-not-reset", E, "    temp_1.fill(-1)  # last time the teams "
      "played each other\n", "", "fire", "D7.2"),
    V("temp2-reset-late", E,
      "    temp_2.fill(0)\n    for team_1 in range(teams):",
      "    for team_1 in range(teams):\n        if team_1 == 0:\n"
      "            pass", "fire", "D7.2"),
    V("separation-max-ignored", E,
      "                    elif difference > separation_max:\n"
      "                        errors += (difference - separation_max)\n",
      "", "fire", "D7.3"),
    V("home-max-ignored", E,
      "                    if home_streak_len > home_streak_max:\n"
      "                        errors += 1  # too long? add to errors\n",
      "", "fire", "D7.3"),
    V("home-consistency-dropped", E,
      "                if y[day, team_2] != -team_1_id:\n"
      "                    errors += 1\n", "", "fire", "D7.3"),
    # silent
    V("silent-guard-flipped", E,
      "                    if difference < separation_min:\n"
      "                        errors += (separation_min - difference)",
      "                    if separation_min > difference:\n"
      "                        errors += (-difference + separation_min)",
      "silent"),
]

VARIANTS += [
    V("home-streak-ended-by-away-vs-away-min", E,
      "                    if is_in_home_streak:\n"
      "                        if home_streak_len < home_streak_min:",
      "                    if is_in_home_streak:\n"
      "                        if home_streak_len < away_streak_min:",
      "fire", "D7.4", "seed C07-home-streak-vs-away-min"),
    V("bye-does-not-charge-short-home-streak", E,
      "                    is_in_home_streak = False\n"
      "                    if home_streak_len < home_streak_min:\n"
      "                        errors += (home_streak_min - home_streak_len)"
      "\n",
      "                    is_in_home_streak = False\n", "fire", "D7.4"),
    V("home-streak-length-not-advanced", E,
      "                    home_streak_len += 1  # ...it continues\n",
      "                    pass\n", "fire", "D7.4"),
    V("last-meeting-not-recorded", E, "            temp_1[idx] = day\n",
      "            pass\n", "fire", "D7.4"),
    V("scans-row-instead-of-column", E, "        col = y[:, team_1]",
      "        col = y[team_1, :]", "fire", "D7.4"),
    V("separation-off-by-one", E,
      "                    difference = day - last_time - 1",
      "                    difference = day - last_time", "fire", "D7.4"),
    V("pairing-count-sign", E,
      "            errors += abs(ij + ji - games_per_combo)",
      "            errors += abs(ij + ji + games_per_combo)", "fire",
      "D7.4"),
    V("away-streak-not-closed-by-home-game", E,
      "                        away_streak_len = -1\n"
      "                        is_in_away_streak = False\n",
      "                        away_streak_len = -1\n", "fire", "D7.4"),
    V("home-games-table-transposed", E,
      "                temp_2[team_1, team_2] += 1",
      "                temp_2[team_2, team_1] += 1", "fire", "D7.4"),
    V("silent-short-streak-le", E,
      "                    if away_streak_len < away_streak_min:\n"
      "                        errors += (away_streak_min - away_streak_len)"
      "\n                    away_streak_len = -1\n                elif",
      "                    if away_streak_len <= away_streak_min:\n"
      "                        errors += (away_streak_min - away_streak_len)"
      "\n                    away_streak_len = -1\n                elif",
      "silent", "", "adds 0 at equality"),
    V("silent-balance-threshold", E, "            if diff > 1:",
      "            if diff >= 1:", "silent", "", "adds diff - 1 = 0"),
    V("silent-entry-sign-test", E,
      "            if team_2_id > 0:  # our team plays a home game",
      "            if team_2_id >= 0:  # our team plays a home game",
      "silent", "", "0 was handled by the bye branch"),
    V("silent-streak-length-initial-value", E,
      "        home_streak_len: int = -1", "        home_streak_len: int = 0",
      "silent", "", "the length is only read while the flag is set"),
    V("silent-counter-init-moved", E, "    errors: int = 0  # the error "
      "counter\n    temp_1.fill(-1)",
      "    temp_1.fill(-1)\n    errors: int = 0", "silent", ""),
    V("counter-starts-at-one", E, "    errors: int = 0  # the error counter",
      "    errors: int = 1  # the error counter", "fire", "D7.1"),
]

VARIANTS += [
    V("season-end-does-not-close-streak", E,
      "        # the end of the season also ends the streak the team is in\n"
      "        if is_in_home_streak:\n"
      "            if home_streak_len < home_streak_min:\n"
      "                errors += (home_streak_min - home_streak_len)\n"
      "        elif is_in_away_streak:\n"
      "            if away_streak_len < away_streak_min:\n"
      "                errors += (away_streak_min - away_streak_len)\n",
      "", "fire", "D7.5", "the defect repaired by e9f0724, re-introduced"),
    V("season-end-closes-home-streak-only", E,
      "        elif is_in_away_streak:\n"
      "            if away_streak_len < away_streak_min:\n"
      "                errors += (away_streak_min - away_streak_len)\n\n"
      "    # sum up", "\n    # sum up", "fire", "D7.5"),
    V("silent-season-end-max-form", E,
      "        if is_in_home_streak:\n"
      "            if home_streak_len < home_streak_min:\n"
      "                errors += (home_streak_min - home_streak_len)\n"
      "        elif is_in_away_streak:\n"
      "            if away_streak_len < away_streak_min:\n"
      "                errors += (away_streak_min - away_streak_len)\n\n"
      "    # sum up",
      "        if is_in_home_streak and (home_streak_len < home_streak_min):"
      "\n            errors += home_streak_min - home_streak_len\n"
      "        if is_in_away_streak and (away_streak_len <= away_streak_min)"
      ":\n            errors += away_streak_min - away_streak_len\n\n"
      "    # sum up", "silent", "", "an equivalent formulation"),
]

VARIANTS += [
    V("scratch-type-of-team-ids", E,
      "        dtype: Final[np.dtype] = int_range_to_dtype(\n"
      "            -1, (n - 1) * instance.rounds)",
      "        dtype: Final[np.dtype] = instance.game_plan_dtype",
      "fire", "D7.6", "seed C07-scratch-type-of-team-ids"),
    V("scratch-type-without-sentinel", E,
      "        dtype: Final[np.dtype] = int_range_to_dtype(\n"
      "            -1, (n - 1) * instance.rounds)",
      "        dtype: Final[np.dtype] = int_range_to_dtype(\n"
      "            0, (n - 1) * instance.rounds)", "fire", "D7.6",
      "the 'never met' value -1 does not fit an unsigned type"),
    V("silent-scratch-type-days-local", E,
      "        dtype: Final[np.dtype] = int_range_to_dtype(\n"
      "            -1, (n - 1) * instance.rounds)",
      "        days: Final[int] = instance.rounds * (n - 1)\n"
      "        dtype: Final[np.dtype] = int_range_to_dtype(\n"
      "            min_value=-1, max_value=days)", "silent"),
]

VARIANTS += [
    V("evaluate-away-max-from-home-max", "moptipyapps/ttp/errors.py",
      "                            inst.away_streak_min, "
      "inst.away_streak_max,\n",
      "                            inst.away_streak_min, "
      "inst.home_streak_max,\n", "fire", "D7.3"),
    V("evaluate-separation-swapped", "moptipyapps/ttp/errors.py",
      "                            inst.separation_min, "
      "inst.separation_max,\n",
      "                            inst.separation_max, "
      "inst.separation_min,\n", "fire", "D7.3"),
    V("silent-evaluate-keywords", "moptipyapps/ttp/errors.py",
      "                            inst.separation_min, "
      "inst.separation_max,\n",
      "                            separation_max=inst.separation_max, "
      "separation_min=inst.separation_min,\n"
      "                            temp_1=self.__temp_1, "
      "temp_2=self.__temp_2)\n\n    def _unused(self):\n        return (0,\n",
      "silent"),
]

VARIANTS += [
    V("upper-bound-one-error-per-violation", "moptipyapps/ttp/errors.py",
      "        return (days * n * (3 + max(1, short) + sep)) + (n * short) \\\n"
      "            + ((days * n) // 2)",
      "        return (4 * days - 1) * n - 1", "fire", "D7.7",
      "the bound the repository declared before the fix"),
    V("upper-bound-forgets-separation", "moptipyapps/ttp/errors.py",
      "(days * n * (3 + max(1, short) + sep))",
      "(days * n * (3 + max(1, short)))", "fire", "D7.7"),
    V("upper-bound-forgets-short-streaks", "moptipyapps/ttp/errors.py",
      "(days * n * (3 + max(1, short) + sep))", "(days * n * (4 + sep))",
      "fire", "D7.7"),
    V("silent-upper-bound-looser", "moptipyapps/ttp/errors.py",
      "(days * n * (3 + max(1, short) + sep))",
      "(days * n * (4 + max(1, short) + sep))", "silent"),
    V("silent-upper-bound-reordered", "moptipyapps/ttp/errors.py",
      "        return (days * n * (3 + max(1, short) + sep)) + (n * short) \\\n"
      "            + ((days * n) // 2)",
      "        return (n * short) + ((n * days) // 2) \\\n"
      "            + (n * days * (sep + max(1, short) + 3))", "silent"),
]

TI = "moptipyapps/ttp/instance.py"
VARIANTS += [
    V("away-streak-min-stored-from-home", TI,
      "            away_streak_min, \"away_streak_min\", 1, ll)",
      "            home_streak_min, \"away_streak_min\", 1, ll)", "fire",
      "D7.3", "seed C07-away-streak-min-stored-from-home"),
]

VARIANTS += [
    V("upper-bound-separation-inside-max", E,
      "        return (days * n * (3 + max(1, short) + sep)) + (n * short)",
      "        return (days * n * (3 + max(1, short + sep))) + (n * short)",
      "fire", "D7.7", "seed C07-upper-bound-separation-inside-max: the "
      "cyclic-host family exceeds the bound"),
]
