"""The per-property claims that go into MANIFEST.json."""

ENGINES = [
    {"name": "sa", "path": "/verif/sa",
     "serves_properties": [],
     "kind_free_text": "custom static analyser: ast source model, symbolic "
                       "term normaliser, weak-ordering enumeration, "
                       "effects analysis, CFG/abstract interpretation"},
]

NOT_BUILT = "check not built yet in this round (claimed by DESIGN.md; " \
            "listed here until its static check exists and is exact)"

CHECKS = {
    "C04": {
        "text": "The acceptance condition of PackingSpace.validate is "
                "reconstructed from every raise guard and decided "
                "equivalent to the feasibility clauses (id range, bin "
                "range, proper rectangle inside the bin, dimensions plain "
                "or rotated, no overlap within a bin, multiplicities, "
                "contiguous bins, n_bins) on all weak orderings of the "
                "compared values - exhaustive up to order-isomorphism of "
                "packings; loop completeness and from_str->validate "
                "must-pass-through are decided on the CFG.",
        "design_ref": "DESIGN.md section 4, C04",
        "note": "Decides D4.1, D4.1L, D4.1T, D4.2. Not decided: value-level "
                "equality of the text round trip (numpy conversion); extra "
                "over-strict guards on values outside the clause tables are "
                "noted, not judged. Trusted: int() of an integer array "
                "element is the identity; check_int_range returns its "
                "argument or raises.",
        "technique": "guard extraction by symbolic walk + exhaustive "
                     "weak-ordering equivalence + CFG dominance",
    },
    "C16": {
        "text": "Every njit controller kernel reachable from a "
                "Controller(...) factory and the three system kernels are "
                "symbolically executed into canonical polynomials; the "
                "rules decide, for all states/parameters, polynomial "
                "completeness, nearest-anchor selection on all weak "
                "orderings of the anchor distances (exhaustive), peak "
                "network shape, parameter-use = declared dimension, the "
                "published system equations, input immutability, and the "
                "parameter-counter protocol of the network code generator.",
        "design_ref": "DESIGN.md section 4, C16",
        "note": "Decides D16.0-D16.6. Does not decide: the value returned "
                "by the min-ANN minimisers, generated network code beyond "
                "the generator rules. Trusted: CPython ast, kernel "
                "parameters are 1-d float arrays, float arithmetic treated "
                "as real arithmetic.",
        "technique": "symbolic normal forms (polynomial identity) + "
                     "exhaustive weak-ordering enumeration + effects "
                     "analysis over the AST",
    },
}

_ALL = [f"C{i:02d}" for i in range(1, 21)]
NOT_APPLICABLE = [{"property_id": p, "reason": NOT_BUILT}
                  for p in _ALL if p not in CHECKS]
ENGINES[0]["serves_properties"] = sorted(CHECKS)
