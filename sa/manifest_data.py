"""The per-property claims that go into MANIFEST.json."""

ENGINES = [
    {"name": "sa", "path": "/verif/sa",
     "serves_properties": [],
     "kind_free_text": "custom static analyser: ast source model, symbolic "
                       "term normaliser, weak-ordering enumeration, "
                       "effects analysis, CFG/abstract interpretation"},
]

NOT_BUILT = "check not built yet in this round (claimed by DESIGN.md; " \
            "listed here until its static check exists and is exact)"

CHECKS = {
    "C20": {
        "text": "Decides that the position distance is |i-j| (symmetric "
                "store of j-i over all j>i into a zero matrix), that the "
                "only flow store is skipped exactly on the diagonal and "
                "beyond the horizon, that the stored flow depends on (i,j) "
                "only through the row-wise average rank minus one, that it "
                "is non-increasing in the rank with a base >= 1 (linear "
                "entailment), that swap_distance is n minus the number of "
                "cycles of the relative permutation (cycle-walk protocol), "
                "and that from_sequence_and_distance merges zero-distance "
                "objects into their representative (removal of entry and "
                "column, index map, re-examination, symmetric rows)."
                " The reduced distance rows reach the constructor unchanged or through a float conversion; an integer conversion (truncation before ranking) is a finding."
                " Every array cell that reaches a row of OrderingSpace.to_str is x[representative index from instance.tags] (D20.7).",
        "design_ref": "DESIGN.md section 4, C20 and 10.2",
        "note": "Does NOT decide the integrality multiplier for half ranks "
                "(neutral for the clauses above) nor the tag bookkeeping. "
                "Trusted: scipy.stats.rankdata semantics. D20.5/D20.6 are "
                "protocol rules over recognised statement shapes: an "
                "unusual restructuring is reported as not recognised.",
        "technique": "structural store/loop rules + monotonicity analysis "
                     "of the expression tree + linear entailment "
                     "(Fourier-Motzkin) + protocol (typestate) rules over "
                     "the statement structure",
    },
    "C10": {
        "text": "Decides the clauses of the simulation contract that are "
                "shapes of the code: at most 5 integration cycles; rows are "
                "returned only behind the finished flag and the bound "
                "tracker, every row is tested as a whole by _is_ok (exact "
                "definition checked) and a not-ok outcome can never be "
                "returned; row 0 holds the starting state; every row's "
                "controls come from controller(state, time) of that row; "
                "a row's state comes from an interpolator whose range "
                "contains its time (search starts at 0, advances, is "
                "bounds-checked and leaves when exhausted); the integration "
                "cycle protocol (reset, one step per round, interpolator "
                "collected unless out of bounds, no step after finished); "
                "the failure row and time column; and the figure of merit: "
                "every term of J (previous-row value squared times the time "
                "step, gamma on controls, first states skipped), its cell "
                "discipline, dest sizing and J = sum / simulated time."
                " D10.9: every call of run_ode / multi_run_ode passes a setting named like a callee parameter as that parameter and does not mix test_* and training_* settings in one run."
                " At a call of an ode helper, a defaulted parameter is not left to its default when the caller holds a setting of that name."
                " A field of System named like a constructor argument can take that argument's value.",
        "design_ref": "DESIGN.md section 4, C10 and 10.2",
        "note": "Does NOT decide termination/accuracy inside scipy's RK45, "
                "strict monotonicity of float times, agreement with "
                "analytic solutions, or the numeric heuristics that shorten "
                "the time frame after a failed cycle.",
        "technique": "run_ode as a boolean program: sound inlining of "
                     "single-assignment locals, then a relational fixpoint "
                     "over partial valuations of its flags, order atoms "
                     "(every spelling of a comparison is a formula over "
                     "lt/le atoms) and a typestate monitor (reset, step, "
                     "collect, row state/control/check ghosts) with "
                     "requirements at the events; CFG avoiding-path queries "
                     "for the retry bound and the search's termination; the "
                     "J kernel's loops summarised from one symbolic round "
                     "(path inlining + symbolic normal forms), terms "
                     "compared by case splitting, buffer size by polynomial "
                     "identity per path of j_from_ode",
    },
    "C07": {
        "text": "Agreement of the TTP error counter with its documented "
                "rules: the per-(team, day) step is normalised symbolically "
                "for the three reachable streak states and compared with a "
                "reference step written from rules 1-8 of the docstring on "
                "every consistent outcome of its comparisons (decision "
                "trees pruned by Fourier-Motzkin, ~440 cases): counter, "
                "streak flags and lengths, and the updated cells of both "
                "tables must coincide; the scan order, the initial state, "
                "the closing of the running streak at the end of a column "
                "and the final pairing summation (rules 9, 10) are decided "
                "likewise; every increment is proven non-negative under its "
                "guards; both scratch tables are reset before use; every "
                "limit is consumed."
                " D7.6: both scratch tables have an integer type covering -1 .. days-1 (a type taken from an attribute is looked up where it is assigned)."
                " Errors.evaluate hands the plan, every instance limit and both scratch tables to the kernel parameter of the same name."
                " The declared upper bound equals / dominates the bound derived from the reference step and no closed-form witness plan family exceeds it for settings the Instance constructor accepts."
                " The TTP Instance constructor stores every limit parameter in the field of its own name (sibling rule over the check_int_range lines)."
                " Witness families for the declared bound: alternating, one-sided, all byes, every team hosts its cyclic successor.",
        "design_ref": "DESIGN.md section 4, C07 and 10.2",
        "note": "By induction over the scan the returned value is the "
                "documented per-rule count, hence 0 exactly for plans that "
                "violate none of rules 1-10. The upper-bound clause is "
                "decided relative to lemma L7 (hand proof that the reference "
                "step adds at most the derived amounts). Does NOT decide that "
                "rules 1-10 are the right notion of feasibility.",
        "technique": "symbolic normalisation of the loop body + case "
                     "splitting over comparison outcomes (exact "
                     "Fourier-Motzkin pruning) against a reference "
                     "transition function; sign analysis by linear "
                     "entailment; CFG dominance; polynomial normal form "
                     "of the declared bound compared with a derived bound "
                     "(shifted-variable non-negativity) and evaluated on "
                     "closed-form witness families",
    },
    "C03": {
        "text": "Decides that the geometric component of the bin-count "
                "lower bound is an exact integer ceiling of the full item "
                "area over the bin area and that the stored bound is "
                "max(damv, geo) read by all consumers; and that the "
                "Dell'Amico-Martello-Vigo component is computed as defined "
                "in the cited paper: classification into S1..S4 and S23 "
                "(equivalence of the guards with the interval definitions "
                "on every comparison outcome), the greedy pairing giving "
                "S3 - ^S3, the closed formula of L(q) (symbolic normal form "
                "with linearised sums and canonical ceilings compared with "
                "a transcription of equations 6-7), the range of q, the "
                "orientation, the argument binding of the driver and the "
                "CUTSQ procedure."
                " The working copy of S3 used by the greedy pairing keeps the non-increasing order of S3.",
        "design_ref": "DESIGN.md section 4, C03 and 10.2",
        "note": "Validity of the DAMV bound itself is the theorem of the "
                "paper and is not re-proved: the check decides agreement "
                "with the definition, which is sufficient (not necessary) "
                "for 'never exceeds an achievable packing' - a different "
                "valid bound would be reported. Exactness of the geometric "
                "part is necessary for both directions.",
        "technique": "symbolic normal form + case splitting over comparison "
                     "outcomes (exact Fourier-Motzkin) against transcribed "
                     "definitions; enumerated exact-ceiling idioms; "
                     "structural dataflow and call-binding rules",
    },
    "C08": {
        "text": "PARTIAL: the per-day transition of the travel-length "
                "kernel is executed symbolically and compared case by case "
                "(entry negative/positive/zero x already-at-venue) with the "
                "documented walk, plus start location, return leg and "
                "returned value; the bye penalty's margin over twice the "
                "largest distance, the upper-bound expression, the kernel "
                "wiring and the instance's own bound are polynomial "
                "identities."
                " D8.3: every plan length lies within [0, upper_bound()] (lemma from the transition structure and the penalty margin); a declared bound above n*days*penalty is accepted, one below the length of the plan without games is refuted by evaluating the bound polynomial."
                " The RobinX loader stores the distance team1 -> team2 in distances[team1, team2] (D8.4).",
        "design_ref": "DESIGN.md section 4, C08",
        "note": "The bounds clause is decided through lemma L8 (D8.3), "
                "whose premises are the obligations D8.1/D8.2. Does NOT "
                "decide the strict "
                "increase clause beyond the penalty margin, or the "
                "published optimum table (search over plans). The "
                "`already there` shortcut is accepted with or without the "
                "test because the distance matrix has a zero diagonal.",
        "technique": "symbolic execution of the loop body to ite-normal "
                     "forms + exhaustive case analysis against a reference "
                     "transition",
    },
    "C15": {
        "text": "PARTIAL: the decoder's placement protocol (zeroed plan, "
                "ascending day scan, paired mirrored stores only when both "
                "cells are free, break - or the search-then-write form "
                "whose stores re-check both cells of the final day) is "
                "decided from guard conditions, which must be EXACTLY "
                "'both cells free'; home != away on all orderings; the "
                "search-space generator appends exactly one code per "
                "(round, unordered pair) and - using the kernel's own "
                "decoding arithmetic and Euclidean division with a "
                "Fourier-Motzkin proven remainder range - every code "
                "decodes to its pair, so each pairing occurs exactly "
                "`rounds` times; the orientation follows the round's "
                "parity except in the last of an odd number of rounds, so "
                "home/away roles per pairing differ by at most one."
                " An `else` of the day scan that leaves the loop over the games is reported (later games would be lost)."
                " The game loop visits the whole permutation: a slice is compared with the number of games for n = 2..9 teams and 1..4 rounds by evaluating its bound polynomial."
                " The plan array is allocated with the instance's game_plan_dtype = int_range_to_dtype(-n, n), which holds every entry the decoder stores (D15.5)."
                " No continue / break / return of the game loop lies outside the scan over the days.",
        "design_ref": "DESIGN.md section 4, C15",
        "note": "Does NOT decide the home/away balance per TEAM in the "
                "special last round (parity argument over the triangular "
                "enumeration of pairs). Index safety of "
                "map_games is C13.",
        "technique": "guard-condition extraction + case analysis over "
                     "orderings + linear entailment (Euclidean division "
                     "lemma)",
    },
    "C18": {
        "text": "PARTIAL: the four coordinate distance functions are "
                "normalised symbolically and must equal the TSPLIB95 "
                "formulas (constants included), the EDGE_WEIGHT_TYPE table "
                "must map each name to the function matching its formula; "
                "each explicit-format index walker's start state, step "
                "function (vs. the successor of the triangular enumeration, "
                "all orderings), symmetric stores, diagonal handling and "
                "element count are decided; the writer's key set, format "
                "choice and row order agree with the reader/walker; the "
                "tour parser's duplicate/size/zero-base checks exist; a "
                "coordinate section becomes the symmetric matrix of the "
                "selected function over all pairs (row validation, "
                "dispatcher binding); the token/number readers hand on "
                "every value exactly once; the header keys reach the "
                "section readers in the parameters they name.",
        "design_ref": "DESIGN.md section 4, C18",
        "note": "Does NOT decide independence of line wrapping (runtime "
                "tokenisation) nor that shipped tours have the documented "
                "optimal length (data). Float arithmetic treated as real "
                "arithmetic; cos(x) = cos(-x) is the only trig identity "
                "used.",
        "technique": "symbolic normal forms vs reference formulas + "
                     "state-machine successor equivalence by ordering "
                     "enumeration + writer/reader agreement",
    },
    "C19": {
        "text": "PARTIAL writer/reader agreement: the quantity sequences "
                "emitted by get_column_titles and get_row of both CSV "
                "writers are extracted (keys folded, loops collapsed, "
                "configuration guards ignored) and must be equal; each CSV "
                "reader passes every constructor parameter the column "
                "looked up under that parameter's key; the compact instance "
                "string's positional fields, separators, IDX_* columns and "
                "default multiplicity agree between writer and reader; "
                "game-plan and ordering log texts put the data first and "
                "their readers keep exactly the first line and validate; "
                "keys of mapping-valued record fields (bin bounds) are read "
                "back unchanged (scope stripping of csv_select_scope "
                "modelled, skip_orig_key predicates folded on the keys the "
                "repository produces); every range accepted by "
                "Instance.__new__ is accepted by from_compact_str."
                " Optional CSV cells must test presence (`k in d`, `is not None`), not the truthiness of the value (a legitimate 0 would be written as empty)."
                " Every CSV cell is parsed with a converter that gives back the kind of number the record constructor declares for the field."
                " A row loop over a mapping of the record itself is not the writer's (sorted) key list that the titles follow.",
        "design_ref": "DESIGN.md section 4, C19",
        "note": "Does NOT decide equality of values / derived attributes "
                "after a round trip (runtime conversion). Relies on the "
                "repository's camelCase key <-> snake_case attribute "
                "naming regularity.",
        "technique": "emission-sequence extraction and agreement "
                     "(writer vs writer, writer vs reader) over the AST",
    },
    "C12": {
        "text": "NARROW: decides only the replicability clauses visible in "
                "the code: no call in the package/examples resolves to an "
                "unseeded, time- or OS-dependent source (imports resolved, "
                "3500 call sites), sets iterated are int sets, every bundled "
                "Execution has an FE budget and no time budget, nested "
                "executions are seeded on every path of their loop round, "
                "the hardness seed memo is keyed by what its seeds derive "
                "from, the packing log parser's key equals the key the "
                "space writes (constants folded from moptipy's source), and "
                "a result record parsed from a log is assembled from the "
                "parsed packing, its instance and each objective's own "
                "evaluate / lower_bound / upper_bound under that "
                "objective's name."
                " Whatever Hardness.evaluate keeps in self between evaluations depends on the evaluated instance only through its name (the memo key)."
                " Positional constructor arguments of the result record are bound through the constructor's signature."
                " Packing.from_log hands the given instance to the parser, which keeps it in the field the PackingSpace is built from (D12.7)."
                " In the experiment modules and examples every parameter of a function that builds or configures an Execution is read in its body (D12.8)."
                " A record obtained from create() is filled (get_copy_of_*, decode, copyto, store) before it is reported (D12.9).",
        "design_ref": "DESIGN.md section 4, C12",
        "note": "Does NOT decide run behaviour: termination within budget, "
                "feasibility of final solutions, logged value = "
                "re-evaluation, identical reruns. moptipyapps.tests.* "
                "helpers are out of scope. Trusted: moptipy seeds runs from "
                "the instance name; process.get_random() is the run's "
                "generator.",
        "technique": "who-may-call ban list over resolved imports + CFG "
                     "dominance (seed before execute) + writer/reader key "
                     "agreement by constant folding",
    },
    "C11": {
        "text": "Field-write discipline of the figure-of-merit objectives "
                "decided on AST and CFG: the write set of evaluate() and of "
                "everything it reaches, the flag-guarded data collector, the "
                "(equations, collect) paired-assignment invariant in every "
                "method, write-before-read of the per-case result cells, "
                "return values that are the failure constant or guarded by "
                "0<=v<=1e100, and - in the surrogate optimizer - that "
                "disabling initialize() and entering model mode are closed "
                "again on every normal path before the loop repeats, before "
                "process.evaluate and before returning; initialize() "
                "empties every list any method grows (under a guard that "
                "is None-equivalent to the list), the collections grow in "
                "the same block, and initialize() returns to real mode; "
                "evaluate() binds the documented instance quantities to "
                "run_ode / j_from_ode, stops exactly on an out-of-range "
                "case, records each continuing case when collecting and "
                "aggregates by mean / exp(mean(log(J+1)))-1; "
                "get_differentials replaces each collection by exactly its "
                "own concatenation."
                " SurrogateOptimizer.solve writes model equations only into a private copy of the system (D11.9)."
                " The loop over the training cases is not left by `break` (the aggregate would read stale entries of the results field).",
        "design_ref": "DESIGN.md section 4, C11",
        "note": "Decides D11.1-D11.8 (controller purity = C16 D16.6). Does not decide "
                "history dependence that lives inside scipy/numba. "
                "Exceptional paths are not modelled.",
        "technique": "effects / field-write analysis + CFG "
                     "must-pass-through (pairing) + guard-condition "
                     "matching",
    },
    "C01": {
        "text": "Decides the clauses of packing feasibility that live in "
                "the shape of the code: the rotation lemma on all weak "
                "orderings of (w,h,W,H) accepted by the constructor; "
                "rectangle size preserved by every move and equal to (w,h) "
                "at every placement; coordinates bounded below by 0 and the "
                "keep path implying right<=W, top<=H on all orderings; the "
                "stored id is |x[i]|; the bin counter protocol (start 1, "
                "step 1, each new value stored, returned); the packing "
                "dtype covers H+h and n_items; every move keeps the moved "
                "box disjoint from every box it was disjoint from.",
        "design_ref": "DESIGN.md section 4, C01",
        "note": "Non-overlap is decided through a pairwise move lemma "
                "(Fourier-Motzkin over every leaf/path/disjointness case of "
                "each move kernel) plus checked initial positions; the "
                "inductive composition (drop above the bin, moves preserve "
                "disjointness, window = all boxes of the bin per C14, fresh "
                "bin on reset) is argued in the evidence text and not "
                "machine-checked. Bin ids within 1..n_items are decided "
                "under C13.",
        "technique": "exhaustive weak-ordering enumeration + symbolic "
                     "normal forms (polynomial identities) + structural "
                     "protocol rules",
    },
    "C14": {
        "text": "The four move kernels are summarised into guarded-min "
                "normal forms whose per-blocker limit is compared with the "
                "documented bottom-left rule on all 23 917 weak orderings of "
                "the two boxes' coordinates (L<R, B<T), with window, start "
                "bound and update as polynomial identities; the call "
                "sequence automaton of the placement loop (down first, then "
                "left), the drop position, the new-bin reset and the "
                "next-fit / ascending first-fit policies are decided on the "
                "CFG / normal forms; statelessness is decided by "
                "write-before-read on the CFG plus abstract interpretation "
                "showing every packing row read is the current or an "
                "earlier one and every bin-table cell read lies below "
                "bin_id.",
        "design_ref": "DESIGN.md section 4, C14",
        "note": "Decides D14.1-D14.4. The composition of the pieces into "
                "'exactly the documented packing' is by construction of the "
                "rules, not by an executable model. Trusted: P2, boxes "
                "already placed satisfy L<R, B<T (C01 D1.2).",
        "technique": "loop-reduction normal forms + exhaustive "
                     "weak-ordering equivalence + CFG automaton / "
                     "dominance + abstract interpretation (row freshness)",
    },
    "C13": {
        "text": "Every subscript position of every boundscheck=False njit "
                "kernel (58 kernels, ~640 sites) is an obligation "
                "-extent <= index <= extent-1 discharged by abstract "
                "interpretation for symbolic array shapes: linear facts, "
                "Houdini template invariants at loop heads, element-range "
                "summaries for kernel-written arrays, a triangular-number "
                "lemma, exact Fourier-Motzkin entailment; refutations come "
                "with a small integer model. Contracts (shapes / element "
                "ranges per parameter) are tabled and discharged at the "
                "allocation or validator that establishes them; producers "
                "(decoders) are checked to store bin ids inside the range "
                "the consumers (objective kernels) rely on; a kernel "
                "without contract or an unreached site is reported."
                " The cache of generated network kernels is keyed injectively by all dimensions (shared obligation with C16 D16.9)."
                " Every call site of run_ode / multi_run_ode binds controller_dim to the control width of the simulated controller (the default 1 would under-size the control arrays).",
        "design_ref": "DESIGN.md section 4, C13",
        "note": "Decides D13.1-D13.3. Lemmas assumed and named in the "
                "evidence: L1 (first item fits the empty first bin, backed "
                "by C01), L2 (FEA y,y2 are true tour lengths, backed by "
                "C05/C06), scratch reads only touch cells written in the "
                "same call (C14). Not decided (listed, 2 sites): the "
                "counter store dest[index] of __j_from_ode_compute (its "
                "sizing is a polynomial identity, C10). Trusted: N3/N4 "
                "numpy index semantics, P1/P2 element ranges of moptipy "
                "spaces.",
        "technique": "abstract interpretation (relational linear domain, "
                     "Houdini invariants, Fourier-Motzkin entailment) + "
                     "contract discharge at allocation sites",
    },
    "C02": {
        "text": "Each of the seven objective kernels is summarised into a "
                "closed form (arg-max-group, per-key accumulation, max "
                "reductions) with the wrapper's arguments substituted; the "
                "value must split as S*(B-1)+T, the same scale S must "
                "appear in to_bin_count, upper_bound and lower_bound, and T "
                "must equal the documented reduction for the four "
                "count/area objectives. Scratch sizing/reset, the "
                "cross-objective agreement guard and int() conversion "
                "before arithmetic on instance entries are decided "
                "structurally. Both skyline sweeps are decided by comparing "
                "their scan step with the defining fold (running maximum of "
                "the covering items with its right edge, running minimum of "
                "later starts) on all comparison outcomes plus the segment "
                "arithmetic and continuation; the kernels receive the "
                "instance's bin width and height in this order."
                " Loop-carried names of the per-bin sweep (area accumulator, position) must be set again at the start of every bin."
                " The declared upper bound is accepted when it is coefficient-wise at least n_items*S or the recognised tight form of its tie-breaker kind, and refuted by evaluating the bound polynomial for two families of feasible packings with known value; a constant offset of the per-bin table index is normalised into the slice bounds."
                " The declared lower bounds are evaluated on three families of feasible packings with known value (one item filling the bin, n unit squares in one bin, two bin-filling items) and must not exceed it."
                " Scratch arrays that accumulate products (areas) have the 64-bit integer cell type; scratch arrays that count may also use the instance's type (D2.3)."
                " BinCount.evaluate computes the count from the rows, not from the stored n_bins attribute.",
        "design_ref": "DESIGN.md section 4, C02 and 10.2",
        "note": "Decides D2.1-D2.6. Validity of lower_bound() for the "
                "objectives with a secondary term is decided only as a "
                "necessary condition (witness packings); not decided: "
                "dominance "
                "between packings. Trusted: Packing shape contract, N1.",
        "technique": "loop-reduction normal forms + polynomial coefficient "
                     "extraction + sibling agreement across methods + "
                     "step-function agreement by case splitting "
                     "(Fourier-Motzkin)",
    },
    "C17": {
        "text": "Ghost-variable (area ledger) rule on the instance decoder: "
                "phase-1 cut blocks are evaluated symbolically and must "
                "conserve area with exactly one append per iteration; every "
                "phase-2 shrinking store must be matched on the same path "
                "by an update of current_area by the polynomially equal "
                "delta, and the cut limit must use the other dimension and "
                "the remaining slack. Dataflow into Instance(...), min_area, "
                "seed provenance, statelessness and the [0,1] clamps of the "
                "instgen objectives are decided on the AST. Every piece "
                "size written is >= 1 under its guards (linear "
                "entailment); item selections are reduced modulo the list "
                "length; the merge of equal items preserves the item count "
                "(scan/append/delete protocol) and the instance reaches the "
                "receiver on every path; the search for a cuttable item "
                "keeps its finite domains, scans cyclically and is bounded; "
                "the similarity objective pairs every statistic of the "
                "instance with the same statistic of the template, hence "
                "is 0 on the template."
                " The hardness objective is a function of the instance: the seeds of its runs come from the instance name on every path, stored seeds are re-used only behind `stored name == name`, seeds and name are stored together, and nothing else computed from an evaluated instance is kept."
                " In the instance-generation package a parameter annotated Iterable is traversed at most once before it is materialised (D17.11)."
                " Every random decision of decode() comes from a generator that decode() itself creates (D17.12).",
        "design_ref": "DESIGN.md section 4, C17 and 10.2",
        "note": "Decides D17.1-D17.9. Not decided: lower_bound_bins == "
                "min_bins as a value (needs the validity of the DAMV "
                "bound), Errors == 0 on the template, termination of phase "
                "1's search if no item could be cut at all.",
        "technique": "symbolic block evaluation (polynomial identities on "
                     "a ghost area ledger) + linear entailment under path "
                     "guards + finite-domain propagation + protocol rules "
                     "+ CFG must-pass queries",
    },
    "C06": {
        "text": "Both move kernels are normalised symbolically: the "
                "incremental delta must be the 2-opt identity (polynomial "
                "identity up to matrix symmetry), every slice assignment "
                "must denote the reversal of x[i..j] with negative-stop "
                "hazards excluded by the path condition, x must be written "
                "only on the accept path which returns y+dy, and the accept "
                "guards must be dy<=0 / h[y2]<=h[y]. In solve(), all weak "
                "orderings of the two index draws are enumerated to prove "
                "0<=i<j<=n-2 and (i,j)!=(0,n-2) at the kernel, and the "
                "kernel/register/evaluate wiring and the h-table size are "
                "checked by symbolic dataflow."
                " The kernel rules are path-wise: every path through a move kernel is followed symbolically; paths that write the tour must entail the acceptance criterion, reverse x[i..j] exactly once and return y + the 2-opt delta; every other path must entail the negated criterion and return y."
                " When index arithmetic is not a pure ordering question, the move index contract is decided by evaluating the symbolic index expressions and path condition for all draws of instances with 2..8 cities (a counterexample is a finding, none is undecided)."
                " The frequency table is logged with offset 0, the offset of its indexing (D6.6)."
                " The njit decorators of both move kernels do not narrow a local below 64 bit (D6.7).",
        "design_ref": "DESIGN.md section 4, C06",
        "note": "Decides D6.1-D6.5; the induction 'every registered y is "
                "the true length' is by composition with C05. Trusted: "
                "numpy slice semantics N4/N5, Generator.integers range, "
                "symmetric instance precondition.",
        "technique": "symbolic normal forms + slice-position reasoning "
                     "under path conditions + exhaustive weak-ordering "
                     "enumeration of the move indices",
    },
    "C05": {
        "text": "The tour_length kernel is summarised by loop-reduction "
                "recognisers into a closed form that must equal the cyclic "
                "edge sum for symbolic matrix/tour/size; the constructor's "
                "bound computations are summarised likewise (sum of row "
                "maxima / minima excluding the diagonal); must-pass-through "
                "of the entry-by-entry copy verification, the 64-bit "
                "accumulator, the 2^63 cap and the symmetry-flag protocol "
                "are decided on the CFG / guard conditions."
                " The stored matrix is a private copy: allocate-and-copyto or a converting constructor that always returns new storage, followed by the entry-by-entry verification; a conversion that may return its argument (asarray / view / copy=False) is a finding."
                " The range multiplier is a factor of the requested limit outside of max(upper_bound, n)."
                " Fallback when the loop is not summarised: the closing edge is read from the last city to the first.",
        "design_ref": "DESIGN.md section 4, C05",
        "note": "Decides D5.1-D5.4. Trusted: N1 (kernel integer scalars "
                "are 64 bit), N3 (index -1 wraps), entries non-negative "
                "(property domain).",
        "technique": "loop-reduction normal forms (symbolic closed-form "
                     "equality) + CFG dominance + guard-condition matching",
    },
    "C09": {
        "text": "The _evaluate kernel's closed form must equal the double "
                "sum of flows[i,j]*distances[x[i],x[j]] up to bound-variable "
                "renaming and the wrapper must bind the matrices to the "
                "kernel parameters of the same name; trivial_bounds is "
                "abstractly interpreted over (source matrix, sort order, "
                "buffer identity) to prove lb anti-sorted / ub co-sorted "
                "without aliasing or clobbered operands; the constructor "
                "only tightens; the parser binds the first-filled list to "
                "`flows`."
                " The matrices are stored with the integer type of [0, stored upper bound]; the text loader's token range covers the largest bound the constructor accepts."
                " On every path through the constructor the stored distance / flow matrix is the argument of that name or an element-wise conversion of it."
                " D9.5: a declared lower bound is neither above the best-known value of its instance nor above an objective value documented in a doctest (text parsed, not run).",
        "design_ref": "DESIGN.md section 4, C09",
        "note": "Decides D9.1-D9.4. Not decided: independence of line "
                "wrapping (runtime tokenisation). Trusted: N1, property "
                "domain ub < 10^15.",
        "technique": "loop-reduction normal forms + small abstract "
                     "interpretation of numpy array order/aliasing + "
                     "parameter-binding agreement",
    },
    "C04": {
        "text": "The acceptance condition of PackingSpace.validate is "
                "reconstructed from every raise guard and decided "
                "equivalent to the feasibility clauses (id range, bin "
                "range, proper rectangle inside the bin, dimensions plain "
                "or rotated, no overlap within a bin, multiplicities, "
                "contiguous bins, n_bins) on all weak orderings of the "
                "compared values - exhaustive up to order-isomorphism of "
                "packings; loop completeness and from_str->validate "
                "must-pass-through are decided on the CFG."
                " Membership tests in displays / tuples are read as equalities; a clause whose only guard cannot be normalised ends undecided, not as a violation."
                " from_str parses all values of the text (no count bound), so that the reshape is the size check.",
        "design_ref": "DESIGN.md section 4, C04",
        "note": "Decides D4.1, D4.1L, D4.1T, D4.2. Not decided: value-level "
                "equality of the text round trip (numpy conversion); extra "
                "over-strict guards on values outside the clause tables are "
                "noted, not judged. Trusted: int() of an integer array "
                "element is the identity; check_int_range returns its "
                "argument or raises.",
        "technique": "guard extraction by symbolic walk + exhaustive "
                     "weak-ordering equivalence + CFG dominance",
    },
    "C16": {
        "text": "Every njit controller kernel reachable from a "
                "Controller(...) factory and the three system kernels are "
                "symbolically executed into canonical polynomials; the "
                "rules decide, for all states/parameters, polynomial "
                "completeness, nearest-anchor selection on all weak "
                "orderings of the anchor distances (exhaustive), peak "
                "network shape, parameter-use = declared dimension, the "
                "published system equations (with matching declared "
                "dimensions), input immutability, the factories' dispatch "
                "guards, and - without generating code - the network "
                "generator: parameter-counter protocol, layer protocol "
                "(abstract interpretation), the exact templates of the "
                "emitted statements, definition of inputs, unique fresh "
                "names, and the CodeGenerator's line/indent protocol."
                " D16.9: the cache of make_ann is keyed by every parameter, looked up and filled under the same key, and what is cached is what is returned."
                " Every division in a controller / system kernel is reached only under a test that excludes a zero divisor, decided by value and path by path."
                " D16.9 also demands that the cache key cannot be produced by two different requests (numbers are not written directly after each other).",
        "design_ref": "DESIGN.md section 4, C16 and 10.2",
        "note": "Decides D16.0-D16.8. Does not decide: the value returned "
                "by the min-ANN minimisers, the predefined literature "
                "controllers (no formula in the repository). Trusted: CPython ast, kernel "
                "parameters are 1-d float arrays, float arithmetic treated "
                "as real arithmetic.",
        "technique": "symbolic normal forms (polynomial identity) + "
                     "exhaustive weak-ordering enumeration + effects "
                     "analysis over the AST + abstract interpretation and "
                     "template matching of the code generator",
    },
}

_ALL = [f"C{i:02d}" for i in range(1, 21)]
NOT_APPLICABLE = [{"property_id": p, "reason": NOT_BUILT}
                  for p in _ALL if p not in CHECKS]
ENGINES[0]["serves_properties"] = sorted(CHECKS)
